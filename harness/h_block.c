// C19 — dispatch block objects: cancel, wait and notify follow the execution
//
// scenario: queue kind (S serial, C concurrent), block flags, per-thread op strings on ONE block object
//   a async   s sync   g group_async   d direct invocation   p dispatch_block_perform (own block)
//   c cancel  t testcancel   W wait FOREVER   T wait 1 ms   n notify (on a second serial queue)
// At most one wait per block object and exactly one execution (the API's own rule).
#include "hcommon.h"
#include <Block.h>

typedef struct { const char *name; char qk; unsigned long flags; const char *thr[3]; } scen;
static const scen SC[] = {
	{ "async vs wait", 'S', 0, { "a", "W", 0 } },
	{ "async vs timed wait", 'S', 0, { "a", "T", 0 } },
	{ "async vs notify", 'S', 0, { "a", "n", 0 } },
	{ "async vs notify vs wait", 'S', 0, { "a", "n", "W" } },
	{ "async then notify twice", 'S', 0, { "ann", 0, 0 } },
	{ "cancel before submit; waiter", 'S', 0, { "ca", "W", 0 } },
	{ "cancel before submit; notify", 'S', 0, { "ca", "n", 0 } },
	{ "cancel races the start", 'S', 0, { "a", "ct", 0 } },
	{ "cancel races the start; waiter", 'S', 0, { "aW", "c", 0 } },
	{ "cancel races the start; notify", 'S', 0, { "an", "c", 0 } },
	{ "sync vs wait", 'S', 0, { "s", "W", 0 } },
	{ "sync vs cancel", 'S', 0, { "s", "ct", 0 } },
	{ "direct invocation vs wait", 'S', 0, { "d", "W", 0 } },
	{ "direct invocation vs notify vs cancel", 'S', 0, { "d", "n", "c" } },
	{ "group_async vs wait", 'S', 0, { "g", "W", 0 } },
	{ "group_async vs cancel vs notify", 'S', 0, { "g", "c", "n" } },
	{ "barrier block on a concurrent queue vs wait", 'C', DISPATCH_BLOCK_BARRIER, { "a", "W", 0 } },
	{ "barrier block vs cancel vs notify", 'C', DISPATCH_BLOCK_BARRIER, { "a", "c", "n" } },
	{ "QoS-flagged block vs timed wait", 'S', DISPATCH_BLOCK_INHERIT_QOS_CLASS, { "a", "T", 0 } },
	{ "ASSIGN_CURRENT block on a concurrent queue vs wait vs cancel", 'C', DISPATCH_BLOCK_ASSIGN_CURRENT, { "a", "W", "c" } },
	{ "dispatch_block_perform", 'S', 0, { "p", 0, 0 } },
	{ "dispatch_block_perform with BARRIER|INHERIT flags", 'S', DISPATCH_BLOCK_BARRIER | DISPATCH_BLOCK_INHERIT_QOS_CLASS, { "p", 0, 0 } },
	{ "timed wait that must time out (block never submitted before)", 'S', 0, { "Ta", 0, 0 } },
	{ "cancel lands during a timed wait that times out; then testcancel and submit", 'S', 0, { "Tta", "c", 0 } },
	{ "cancel lands during a timed wait on a running block; testcancel afterwards", 'S', 0, { "aTt", "c", 0 } },
	// a block object may be executed several times as long as nobody waits on it or observes it: only the first completion leaves its group
	{ "the same block object called directly by two threads at once", 'S', 0, { "d", "d", 0 } },
	{ "a direct call racing an async submission of the same block object", 'S', 0, { "a", "d", 0 } },
	{ "the same block object submitted with dispatch_async by two threads (concurrent queue)", 'C', 0, { "a", "a", 0 } },
	// a block cancelled before it is submitted synchronously still completes for its waiters and observers
	{ "BARRIER block cancelled, then dispatch_sync on a concurrent queue; a waiter on another thread", 'C', DISPATCH_BLOCK_BARRIER, { "cs", "W", 0 } },
	{ "BARRIER block cancelled, then dispatch_sync, then notify and wait from the same thread", 'S', DISPATCH_BLOCK_BARRIER, { "csnW", 0, 0 } },
	{ "block cancelled, then dispatch_sync on a serial queue; notify from another thread", 'S', 0, { "cs", "n", 0 } },
};
#define NSC ((int)(sizeof(SC) / sizeof(SC[0])))
#define BODY 100
#define PERF 200
enum { EV_CANCEL_RET = EV_USER, EV_TESTCANCEL, EV_WAIT_CALL, EV_WAIT_RET, EV_NOTIFY_CALL, EV_NOTIFY_START, EV_SUBMIT_CALL, EV_SUBMIT_RET };

static const scen *g_sc;
static dispatch_queue_t g_q, g_nq;
static dispatch_group_t g_grp;
static dispatch_block_t g_b;
static int g_done, g_expected;

static void warm_fn(void *c) { *(int *)c = 1; }
static void noop(void *c) { (void)c; }
static void warm(dispatch_queue_t q) { int d = 0; dispatch_async_f(q, &d, warm_fn); int *a[2] = { &d, (int *)(intptr_t)1 }; vx_wait_until(pred_int_ge, a); }

static void do_ops(int t)
{
	const char *s = g_sc->thr[t];
	for (int k = 0; s && s[k]; k++) {
		int id = t * 16 + k + 1;
		switch (s[k]) {
		case 'a': vx_ev(EV_SUBMIT_CALL, id, 'a'); dispatch_async(g_q, g_b); vx_ev(EV_SUBMIT_RET, id, 0); break;
		case 's': vx_ev(EV_SUBMIT_CALL, id, 's'); dispatch_sync(g_q, g_b); vx_ev(EV_SUBMIT_RET, id, 0); break;
		case 'g': vx_ev(EV_SUBMIT_CALL, id, 'g'); dispatch_group_async(g_grp, g_q, g_b); vx_ev(EV_SUBMIT_RET, id, 0); break;
		case 'd': vx_ev(EV_SUBMIT_CALL, id, 'd'); g_b(); vx_ev(EV_SUBMIT_RET, id, 0); break;
		case 'p':
			vx_ev(EV_SUBMIT_CALL, id, 'p');
			dispatch_block_perform((dispatch_block_flags_t)g_sc->flags, ^{ item_body(PERF); });
			vx_ev(EV_SUBMIT_RET, id, 0);
			break;
		case 'c': dispatch_block_cancel(g_b); vx_ev(EV_CANCEL_RET, id, 0); break;
		case 't': vx_ev(EV_TESTCANCEL, id, dispatch_block_testcancel(g_b) != 0); break;
		case 'W': case 'T': {
			vx_ev(EV_WAIT_CALL, id, s[k]);
			intptr_t r = dispatch_block_wait(g_b, s[k] == 'W' ? DISPATCH_TIME_FOREVER : dispatch_time(DISPATCH_TIME_NOW, 1 * MS));
			vx_ev(EV_WAIT_RET, id, r != 0);
			break; }
		case 'n':
			vx_ev(EV_NOTIFY_CALL, id, 0);
			dispatch_block_notify(g_b, g_nq, ^{ vx_ev(EV_NOTIFY_START, id, 0); vx_point(); g_done++; });
			break;
		default: vx_fail("bad op");
		}
	}
}
static void actor(void *arg) { do_ops((int)(intptr_t)arg); }

static int nvariants(void) { return NSC; }
static void describe(int v, char *b, size_t n)
{
	snprintf(b, n, "%s [queue %c, flags 0x%lx, threads: %s | %s | %s] (a async, s sync, g group_async, d direct call, p perform, c cancel, t testcancel, W/T wait forever/1ms, n notify)",
			SC[v].name, SC[v].qk, SC[v].flags, SC[v].thr[0], SC[v].thr[1] ? SC[v].thr[1] : "-", SC[v].thr[2] ? SC[v].thr[2] : "-");
}

static void run(int v)
{
	g_sc = &SC[v];
	g_done = g_expected = 0;
	vx_set_horizon(12ull * 1000000000ull);
	g_q = dispatch_queue_create("vx.blk", g_sc->qk == 'C' ? DISPATCH_QUEUE_CONCURRENT : DISPATCH_QUEUE_SERIAL);
	g_nq = dispatch_queue_create("vx.blk.notify", NULL);
	g_grp = dispatch_group_create();
	warm(g_q); warm(g_nq);
	g_b = dispatch_block_create((dispatch_block_flags_t)g_sc->flags, ^{ item_body(BODY); });
	int submits = 0;
	for (int t = 0; t < 3; t++) for (const char *s = g_sc->thr[t]; s && *s; s++) {
		if (*s == 'n') g_expected++;
		if (strchr("asgd", *s)) submits++;
	}
	int th[3];
	vx_focus_begin();
	for (int t = 1; t < 3; t++) if (g_sc->thr[t]) th[t] = vx_thread(actor, (void *)(intptr_t)t);
	do_ops(0);
	for (int t = 1; t < 3; t++) if (g_sc->thr[t]) vx_join(th[t]);
	int *a[2] = { &g_done, (int *)(intptr_t)g_expected };
	vx_wait_until(pred_int_ge, a);
	if (strchr(g_sc->thr[0], 'g') || (g_sc->thr[1] && strchr(g_sc->thr[1], 'g'))) dispatch_group_wait(g_grp, DISPATCH_TIME_FOREVER);
	vx_focus_end();
	// drain the queue so that a still-pending body would be seen
	if (submits) dispatch_barrier_sync_f(g_q, NULL, noop);
}

static int check(int v, const vx_log *l, char *msg, size_t len)
{
	const scen *sc = &SC[v];
	int bs = ev_first(l, EV_START, BODY), be = ev_first(l, EV_END, BODY);
	int nstart = ev_count(l, EV_START, BODY);
	int cancel = -1, submit_call = -1, submit_ret = -1;
	for (uint32_t i = 0; i < l->n; i++) {
		if (l->ev[i].kind == EV_CANCEL_RET && cancel < 0) cancel = (int)i;
		if (l->ev[i].kind == EV_SUBMIT_CALL && l->ev[i].arg != 'p' && submit_call < 0) submit_call = (int)i;
		if (l->ev[i].kind == EV_SUBMIT_RET && submit_ret < 0 && submit_call >= 0) submit_ret = (int)i;
	}
	int submits = 0;
	for (int t = 0; t < 3; t++) for (const char *q = sc->thr[t]; q && *q; q++) if (strchr("asgd", *q)) submits++;
	int multi = submits > 1;
	if (nstart > (submits ? submits : 1)) FAILF(msg, len, "the block body ran %d times for %d submission(s)", nstart, submits);
	if (multi && cancel < 0 && (nstart != submits || ev_count(l, EV_END, BODY) != submits)) FAILF(msg, len, "the block object was executed %d times (started %d, finished %d)", submits, nstart, ev_count(l, EV_END, BODY));
	if (bs >= 0 && be < 0) FAILF(msg, len, "the block body started but never finished (a running block must not be interrupted)");
	if (cancel >= 0 && submit_call >= 0 && cancel < submit_call && bs >= 0)
		FAILF(msg, len, "the block was cancelled (event #%d) before it was submitted (event #%d) but its body ran", cancel, submit_call);
	if (submit_call >= 0 && cancel < 0 && bs < 0) FAILF(msg, len, "the block was submitted and never cancelled but its body did not run");
	int completion = bs >= 0 ? be : submit_call;   // earliest stamp the completion can possibly have
	for (uint32_t i = 0; i < l->n; i++) {
		const vx_event *e = &l->ev[i];
		if (e->kind == EV_WAIT_RET) {
			int c = ev_first(l, EV_WAIT_CALL, e->id);
			if (e->arg == 0) {
				if (completion < 0 || (int)i < completion)
					FAILF(msg, len, "dispatch_block_wait returned 0 (event #%u) before the block's %s (event #%d)", i, bs >= 0 ? "body had finished" : "submission", completion);
			} else {
				if (l->ev[c].arg == 'W') FAILF(msg, len, "dispatch_block_wait(FOREVER) returned non-zero");
				if (e->vt - l->ev[c].vt < 1 * MS) FAILF(msg, len, "dispatch_block_wait timed out after %llu ns, before its 1 ms timeout", (unsigned long long)(e->vt - l->ev[c].vt));
			}
		}
		if (e->kind == EV_NOTIFY_START) {
			if (ev_count(l, EV_NOTIFY_START, e->id) != 1) FAILF(msg, len, "notification %d was submitted %d times", e->id, ev_count(l, EV_NOTIFY_START, e->id));
			if (completion < 0 || (int)i < completion)
				FAILF(msg, len, "notification %d started (event #%u) before the block's %s (event #%d)", e->id, i, bs >= 0 ? "body had finished" : "submission", completion);
		}
		if (e->kind == EV_TESTCANCEL) {
			if (cancel >= 0 && cancel < (int)i && e->arg == 0) FAILF(msg, len, "dispatch_block_testcancel returned 0 after dispatch_block_cancel had returned");
			if (cancel < 0 && e->arg != 0) FAILF(msg, len, "dispatch_block_testcancel returned non-zero although the block was never cancelled");
		}
		if (e->kind == EV_SUBMIT_RET && l->ev[ev_first(l, EV_SUBMIT_CALL, e->id)].arg == 'p') {
			int ps = ev_first(l, EV_START, PERF), pe = ev_first(l, EV_END, PERF);
			if (ev_count(l, EV_START, PERF) != 1 || pe < 0 || pe > (int)i || ps > pe) FAILF(msg, len, "dispatch_block_perform did not run its block exactly once before returning");
		}
		if (!multi && e->kind == EV_SUBMIT_RET && (l->ev[ev_first(l, EV_SUBMIT_CALL, e->id)].arg == 's' || l->ev[ev_first(l, EV_SUBMIT_CALL, e->id)].arg == 'd')) {
			if (bs >= 0 && be > (int)i) FAILF(msg, len, "synchronous execution of the block returned before the body finished");
		}
	}
	for (int t = 0; t < 3; t++) for (int k = 0; sc->thr[t] && sc->thr[t][k]; k++) {
		int id = t * 16 + k + 1;
		if (sc->thr[t][k] == 'n' && ev_count(l, EV_NOTIFY_START, id) != 1) FAILF(msg, len, "notification %d ran %d times", id, ev_count(l, EV_NOTIFY_START, id));
		if ((sc->thr[t][k] == 'W' || sc->thr[t][k] == 'T') && ev_count(l, EV_WAIT_RET, id) != 1) FAILF(msg, len, "wait %d did not return", id);
	}
	return 0;
}

const vx_harness h_block = { "block", "C19", nvariants, describe, run, check, 1, 0 };
