// C02 (main queue serviced by a run loop) — the main queue stays serial and FIFO when it is drained through
// _dispatch_get_main_queue_handle_4CF() / _dispatch_main_queue_callback_4CF() and an item re-enters the run loop
//
// Thread 0 is the "run loop": it waits for the main queue's wake-up descriptor, consumes it and calls the callback.
// Items A and B are submitted first.  Scenarios:
//   0: plain run-loop servicing; a second thread submits D (async) and E (sync) while A runs
//   1: as 0, and A itself services the run loop once more from inside its body (a nested run loop, e.g. a modal
//      panel): the nested call must not start any other main-queue item inside A
//   2: as 1, with E submitted with dispatch_async_and_wait
// Oracle: the items' [start,end] intervals are pairwise disjoint; B starts before D and E (submitted after B was);
// D before E (same thread, program order); every item runs exactly once; the sync call returns after E's end.
#include "hcommon.h"
#include <dispatch/private.h>
#include <poll.h>
#include <sys/eventfd.h>

static const char *const NAMES[] = {
	"main queue serviced through the 4CF callback; a second thread submits async D and sync E while item A runs",
	"the same, and item A re-enters the run loop (calls the callback) from inside its body",
	"the same with dispatch_async_and_wait for E",
};
#define NSC 3
enum { A = 1, B, D, E };
enum { EV_SUBMIT = EV_USER, EV_SYNC_RET, EV_NESTED };
static int g_scen, g_done, g_t1_async_done, g_fd;
static dispatch_queue_t g_main;

static int fd_ready(void *p) { (void)p; struct pollfd pf = { .fd = g_fd, .events = POLLIN }; return poll(&pf, 1, 0) > 0; }
static void service_once(void)
{
	eventfd_t v;
	(void)eventfd_read(g_fd, &v);
	_dispatch_main_queue_callback_4CF(NULL);
}
static void plain_fn(void *ctx) { item_body((int)(intptr_t)ctx); g_done++; }
static void a_fn(void *ctx)
{
	(void)ctx;
	vx_ev(EV_START, A, 0);
	int *w[2] = { &g_t1_async_done, (int *)(intptr_t)1 };
	vx_wait_until(pred_int_ge, w);          // the second thread has queued D (and is submitting E)
	vx_point();
	if (g_scen >= 1) {
		vx_ev(EV_NESTED, 0, 0);
		service_once();                     // nested run loop turn: must do nothing observable to the main queue's items
		vx_ev(EV_NESTED, 1, 0);
	}
	vx_point();
	vx_ev(EV_END, A, 0);
	g_done++;
}
static void t1_fn(void *arg)
{
	(void)arg;
	vx_ev(EV_SUBMIT, D, 0);
	dispatch_async_f(g_main, (void *)(intptr_t)D, plain_fn);
	g_t1_async_done = 1;
	vx_ev(EV_SUBMIT, E, 0);
	if (g_scen == 2) dispatch_async_and_wait_f(g_main, (void *)(intptr_t)E, plain_fn);
	else dispatch_sync_f(g_main, (void *)(intptr_t)E, plain_fn);
	vx_ev(EV_SYNC_RET, E, 0);
}

static int nvariants(void) { return NSC; }
static void describe(int v, char *b, size_t n) { snprintf(b, n, "%s", NAMES[v]); }
static int all_done(void *p) { (void)p; return g_done >= 4 || fd_ready(NULL); }

static void run(int v)
{
	g_scen = v; g_done = 0; g_t1_async_done = 0;
	vx_set_horizon(12ull * 1000000000ull);
	g_main = dispatch_get_main_queue();
	g_fd = (int)_dispatch_get_main_queue_handle_4CF();
	vx_focus_begin();
	vx_ev(EV_SUBMIT, A, 0); dispatch_async_f(g_main, NULL, a_fn);
	vx_ev(EV_SUBMIT, B, 0); dispatch_async_f(g_main, (void *)(intptr_t)B, plain_fn);
	int th = vx_thread(t1_fn, NULL);
	while (g_done < 4) {
		vx_wait_until(all_done, NULL);
		if (g_done >= 4) break;
		service_once();
	}
	vx_join(th);
	vx_focus_end();
}

static int check(int v, const vx_log *l, char *msg, size_t len)
{
	(void)v;
	static const char NM[] = "?ABDE";
	int st[5], en[5];
	for (int i = A; i <= E; i++) {
		if (ev_count(l, EV_START, i) != 1 || ev_count(l, EV_END, i) != 1) FAILF(msg, len, "main-queue item %c started %d times and finished %d times", NM[i], ev_count(l, EV_START, i), ev_count(l, EV_END, i));
		st[i] = ev_first(l, EV_START, i); en[i] = ev_first(l, EV_END, i);
	}
	for (int i = A; i <= E; i++) for (int j = i + 1; j <= E; j++)
		if (st[i] < en[j] && st[j] < en[i]) FAILF(msg, len, "main-queue items %c [#%d,#%d] and %c [#%d,#%d] overlapped", NM[i], st[i], en[i], NM[j], st[j], en[j]);
	if (st[B] < en[A]) FAILF(msg, len, "B started before A finished (submitted after A by the same thread)");
	int sb = ev_first(l, EV_SUBMIT, B), sd = ev_first(l, EV_SUBMIT, D);
	if (sb < sd && st[D] < en[B]) FAILF(msg, len, "D (submitted at event #%d, after B's submission returned at #%d) started (event #%d) before B finished (event #%d)", sd, sb, st[D], en[B]);
	if (st[E] < en[D]) FAILF(msg, len, "E started (event #%d) before D finished (event #%d) although the same thread submitted D first", st[E], en[D]);
	int sr = ev_first(l, EV_SYNC_RET, E);
	if (sr < 0 || sr < en[E]) FAILF(msg, len, "the synchronous submission of E returned (event #%d) before E finished (event #%d)", sr, en[E]);
	return 0;
}

const vx_harness h_mainrl = { "mainrl", "C02", nvariants, describe, run, check, 0, 0 };
