"""Task lists per property and tier.  A dsched task is one explorer run of one
(harness, variant, ncpu) with deviation bound k; a cmd task is a seqx driver."""
import json
import subprocess

V = "/verif"
_variants = None


def variants(harness):
    global _variants
    if _variants is None:
        out = subprocess.run([V + "/build/vxh", "list"], stdout=subprocess.PIPE, text=True).stdout
        _variants = {}
        for e in json.loads(out):
            _variants.setdefault(e["harness"], []).append(e["variant"])
    return _variants.get(harness, [])


def ds(harness, k, vs=None, ncpu=2, mode="pb", jobs=4, **kw):
    vs = variants(harness) if vs is None else vs
    out = []
    for v in vs:
        t = {"engine": "dsched", "harness": harness, "variant": v, "k": k, "ncpu": ncpu, "mode": mode, "jobs": jobs}
        t.update(kw)
        out.append(t)
    return out


SC_ASSUME = [
    "sequentially consistent exploration: scheduling points are the hooked C11 atomics, busy-wait iterations and wrapped blocking calls; plain racy accesses travel with the preceding step",
    "Linux/epoll/futex/POSIX-semaphore back end as built by bin/buildlib (clang-14, ASan, -DDISPATCH_VERIF)",
    "futex and semaphore wake-ups pick waiters in FIFO order",
]

SEQ_ASSUME = [
    "the reference model in the driver (seqx/*.c) states the property correctly",
    "bounded scope: only the enumerated lattice / term space is covered, completely",
    "Linux build as produced by bin/buildlib (clang-14, ASan)",
]

PLAN = {
    "C13": {
        "rule": "breadth-first search over terms built from 3 leaves (sizes 1,2,3; five leaf-kind configurations) with concat / subrange (all offsets and lengths incl. out-of-range) / "
                "map / copy_region, de-duplicated on the canonical region list; one evaluation = one operation application checked against a byte-string model, plus every release order "
                "of the handles of small terms; distinct = distinct byte strings observed",
        "bounds": {"quick": "<=4 records, <=8 bytes, operation depth 3, release orders for depth <=2 terms with <=4 handles",
                   "thorough": "<=6 records, <=12 bytes, depth 4 (two leaf configurations) / depth 3 (three), release orders for depth <=3"},
        "assumptions": SEQ_ASSUME,
        "parallel": {"quick": 1, "thorough": 1},
        "budget_s": {"quick": 150, "thorough": 1500},
    },
    "C18": {
        "rule": "attribute table: all 4032 field tuples x every constructor order (<=24) + closure under every single constructor application + invalid arguments; "
                "dispatch_get_global_queue: identifiers x 67 flag values, full cross product; distinct = distinct attribute objects + distinct global queues",
        "bounds": {"quick": "4032 tuples x all orders, 475776 closure steps, 66601 identifiers x 67 flags; behavioural check of concurrency/inactive on 12 representative queues",
                   "thorough": "same attribute half; identifiers -2^24..2^24 plus boundary values x 67 flags (2.2e9 calls)"},
        "assumptions": SEQ_ASSUME + ["queue-specific data / dispatch_assert_queue half of C18: see the dsched tasks when present"],
        "parallel": {"quick": 1, "thorough": 1},
        "budget_s": {"quick": 150, "thorough": 900},
    },
    "C12": {
        "rule": "one evaluation = one (base, delta) or (timespec, delta) input of the boundary lattice, full cross product, compared with 128-bit reference arithmetic; "
                "distinct = distinct (clock, outcome-class) results",
        "bounds": {"quick": "1623 bases x 1094 deltas + 91 timespecs x 1094 deltas + 4 virtual clock readings + 226 waits on elapsed times",
                   "thorough": "12917 bases x 8790 deltas + 2276 timespecs x 8790 deltas (1.3e8 calls) + virtual clocks + waits"},
        "assumptions": SEQ_ASSUME,
        "parallel": {"quick": 1, "thorough": 1},
        "budget_s": {"quick": 120, "thorough": 900},
    },
    "C09": {
        "rule": "one evaluation = one complete execution of the real dispatch_once code under one schedule; schedules are "
                "enumerated exhaustively up to k preemptions; distinct = distinct API-level event logs",
        "bounds": {"quick": "2-4 racing callers + late caller, both entry points, k<=2 (k<=3 for 2-3 callers)",
                   "thorough": "2-4 racing callers + late caller, both entry points, k<=3 (k<=4 for 2 callers)"},
        "assumptions": SC_ASSUME,
        "parallel": {"quick": 4, "thorough": 2},
        "budget_s": {"quick": 170, "thorough": 1500},
    },
}


def sx(name, **kw):
    t = {"engine": "seqx", "name": name, "cmd": [V + "/build/seqx/" + name, "--tier", "{tier}", "--json", "{json}"]}
    t.update(kw)
    return [t]


def tasks_for(pid, tier):
    q = tier == "quick"
    if pid == "C12":
        return sx("time_c12")
    if pid == "C13":
        return sx("data_c13")
    if pid == "C18":
        return sx("attrs_c18")
    if pid == "C09":
        return (ds("once", 3 if q else 4, [0, 1]) + ds("once", 3, [2, 3]) +
                ds("once", 2 if q else 3, [4, 5], jobs=4 if q else 8))
    raise KeyError(pid)
