// vx — serialising scheduler + deviation-bounded explorer for the real
// libdispatch (engine "dsched" of DESIGN.md). Harness-facing API.
#ifndef VX_H
#define VX_H
#include <stdint.h>
#include <stddef.h>

#ifdef __cplusplus
extern "C" {
#endif

// ---- event log -----------------------------------------------------------
enum {
	EV_CALL = 1,   // API call begins            (id = operation id)
	EV_RET,        // API call returned          (id = operation id, arg = rv)
	EV_START,      // work item / handler starts (id = item id)
	EV_END,        // work item / handler ends   (id = item id)
	EV_NOTE,       // free-form observation      (id, arg)
	EV_FREE,       // free() of a watched pointer (id given to vx_watch_free)
	EV_IO,         // read/write/pread/pwrite issued by the code under test on a watched descriptor (id = 0 read, 1 write; arg = result or -errno)
	EV_USER = 16,  // harness-private kinds start here
};

typedef struct vx_event {
	uint32_t seq;      // global sequence stamp (index in the log)
	uint16_t kind;
	uint16_t thread;   // scheduler thread index
	int32_t  id;
	int64_t  arg;
	uint64_t vt;       // virtual nanoseconds since start of execution
} vx_event;

#define VX_MAXEV 2048
typedef struct vx_log {
	uint32_t n;
	vx_event ev[VX_MAXEV];
} vx_log;

// append an event (not a scheduling point); returns its seq
uint32_t vx_ev(int kind, int id, int64_t arg);
const vx_log *vx_get_log(void);

// ---- scheduling vocabulary ------------------------------------------------
int  vx_thread(void (*fn)(void *), void *arg);  // start a controlled client thread
void vx_join(int t);
void vx_point(void);                  // schedulable no-op
void vx_wait_until(int (*pred)(void *), void *ctx); // scheduler-level wait
void vx_sleep_ns(uint64_t ns);        // timed block on the virtual clock
void vx_focus_begin(void);            // schedule branching starts here
void vx_focus_end(void);
void vx_end(void) __attribute__((noreturn));   // finish the execution from any thread (runs the oracle)
void vx_set_spurious(int on);         // spurious futex/sem wake-ups as a deviation (default on)
void vx_expect_crash(void);           // a trap from here on is the expected outcome
void vx_fail(const char *fmt, ...) __attribute__((format(printf,1,2), noreturn));
int  vx_self(void);                   // scheduler thread index of the caller
void vx_note(const char *note);
void vx_watch_free(void *p, int id);  // log EV_FREE(id) when free(p) is called       // what the calling thread is doing (shown in stuck witnesses)

// virtual clocks (ns).  All advance at the same rate from distinct bases.
#define VX_BASE_MONOTONIC  (10ull * 1000000000ull)
#define VX_BASE_BOOTTIME   (1000010ull * 1000000000ull)
#define VX_BASE_REALTIME   (1700000000ull * 1000000000ull)
uint64_t vx_vt(void);                 // ns since start of this execution
void vx_set_horizon(uint64_t ns);     // stuck witness when vt passes this
void vx_set_time_deviations(int on);  // offer "deadline elapses now" choices
int  vx_ncpu(void);

// mirrored epoll interest table (for C16): events currently armed for fd on
// any epoll instance, or -1 if the fd is not registered.
int  vx_epoll_armed(int fd);

// I/O-point mode (C14)
void vx_io_watch(int fd);             // read/write/pread/pwrite of the library on fd become I/O points
void vx_set_io_only(int on, int faults); // branch only at I/O points; `faults` injected answers per execution
void vx_wait_idle(void);              // environment thread: runs when nothing else can (or, as a deviation, right before an I/O point)
const unsigned char *vx_io_consumed(int fd, size_t *n);  // bytes the library's reads returned from fd, in order
const unsigned char *vx_io_written(int fd, size_t *n);   // bytes the library's writes put into fd, in order
#include <sys/types.h>
ssize_t vx_real_read(int fd, void *b, size_t n);   // un-instrumented I/O for the harness's own peer
ssize_t vx_real_write(int fd, const void *b, size_t n);
int vx_real_close(int fd);

// ---- harness registration ---------------------------------------------------
typedef struct vx_harness {
	const char *name;
	const char *property;                     // "C09" ...
	int (*nvariants)(void);
	void (*describe)(int variant, char *buf, size_t len);
	void (*run)(int variant);                 // executed as thread 0 under the scheduler
	// oracle over the event log, executed in the child after run() returned;
	// returns 0 if ok, else writes a message
	int (*check)(int variant, const vx_log *log, char *msg, size_t len);
	int time_deviations;                      // default for this harness
	uint64_t horizon_ns;                      // 0 = default (30 s virtual)
} vx_harness;

extern const vx_harness *const vx_harnesses[];  // NULL terminated, in harness/all.c

// ---- oracle helpers (oracle.c) ------------------------------------------------
int  ev_first(const vx_log *l, int kind, int id);       // seq of first match or -1
int  ev_last(const vx_log *l, int kind, int id);
int  ev_count(const vx_log *l, int kind, int id);
int  ev_nth(const vx_log *l, int kind, int id, int n);  // n-th (0-based) match or -1
// every START(id) has a matching later END(id) by the same thread and the count is exactly `want`
int  orc_exactly_once(const vx_log *l, const int *ids, int n, char *msg, size_t len);
// intervals [START,END] of the listed item ids never overlap
int  orc_disjoint(const vx_log *l, const int *ids, int n, char *msg, size_t len);
// RET(op) after END(item)
int  orc_ret_after_end(const vx_log *l, int op, int item, char *msg, size_t len);
// if RET(opA) < CALL(opB) then END(itemA) < START(itemB)
int  orc_fifo(const vx_log *l, int opA, int itemA, int opB, int itemB, char *msg, size_t len);

#ifdef __cplusplus
}
#endif
#endif
