// C10 — dispatch_apply: every index exactly once, returns after all, serial => in order
//
// variant = queue kind x n (x nested).  VX_NCPU (1,2,3) is set by the task, so n is below / at /
// above the helper count.
#include "hcommon.h"
#include <dispatch/private.h>

static const char *const KINDS[] = { "DISPATCH_APPLY_AUTO", "global default queue", "serial queue", "concurrent queue",
	"concurrent queue targeting a serial queue", "concurrent queue with a racing barrier_async", "concurrent queue narrowed to width 2",
	"concurrent queue narrowed to width 2, iterations block for 1 virtual ms (maximal overlap without preemption)",
	"serial queue on which an item is running (blocked for 1 virtual ms) when dispatch_apply is called",
	"concurrent queue on which a barrier item is running (blocked for 1 virtual ms) when dispatch_apply is called" };
enum { K_AUTO, K_GLOBAL, K_SERIAL, K_CONC, K_CONC_SERIAL, K_CONC_BARRIER, K_NARROW, NKINDS, K_NARROW_SLOW = NKINDS, K_BUSY_SERIAL, K_BUSY_BARRIER };
static const int NS[] = { 0, 1, 2, 3, 5 };
#define NN 5
#define NPLAIN (NKINDS * NN)
static const int NESTED_KINDS[] = { K_AUTO, K_GLOBAL, K_SERIAL, K_CONC };
#define NNESTED 4
#define NSLOW 3   // n = 2, 3, 5 on the slow narrow queue
#define NBUSY 4   // (busy serial, busy barrier) x n = 1, 2
#define BARRIER_ITEM 900

static dispatch_queue_t g_q, g_bottom;
static int g_kind, g_n, g_nested, g_barrier_done, g_busy_started;

static void inner_fn(void *ctx, size_t j)
{
	int id = (int)(intptr_t)ctx + (int)j + 1;
	item_body(id);
}
static void outer_fn(void *ctx, size_t i)
{
	(void)ctx;
	int id = 100 * ((int)i + 1);
	vx_ev(EV_START, id, (int64_t)i);
	if (g_kind == K_NARROW_SLOW) vx_sleep_ns(1 * MS); else vx_point();
	if (g_nested) {
		vx_ev(EV_CALL, id, 0);
		dispatch_apply_f(2, (g_kind == K_AUTO || g_kind == K_SERIAL) ? DISPATCH_APPLY_AUTO : g_q, (void *)(intptr_t)id, inner_fn);
		vx_ev(EV_RET, id, 0);
	}
	vx_ev(EV_END, id, (int64_t)i);
}
static void post_fn(void *ctx) { (void)ctx; vx_ev(EV_NOTE, 7, 0); }
static void barrier_fn(void *ctx) { (void)ctx; item_body(BARRIER_ITEM); g_barrier_done = 1; }
static void racer(void *arg) { (void)arg; vx_ev(EV_CALL, BARRIER_ITEM, 0); dispatch_barrier_async_f(g_q, NULL, barrier_fn); vx_ev(EV_RET, BARRIER_ITEM, 0); }
static void busy_fn(void *ctx) { (void)ctx; vx_ev(EV_START, BARRIER_ITEM, 0); g_busy_started = 1; vx_sleep_ns(1 * MS); vx_ev(EV_END, BARRIER_ITEM, 0); g_barrier_done = 1; }
static void warm_fn(void *c) { *(int *)c = 1; }
static void warm(dispatch_queue_t q) { int d = 0; dispatch_async_f(q, &d, warm_fn); int *a[2] = { &d, (int *)(intptr_t)1 }; vx_wait_until(pred_int_ge, a); }

static int nvariants(void) { return NPLAIN + NNESTED + NSLOW + NBUSY; }
static void decode(int v, int *kind, int *n, int *nested)
{
	if (v < NPLAIN) { *kind = v / NN; *n = NS[v % NN]; *nested = 0; }
	else if (v < NPLAIN + NNESTED) { *kind = NESTED_KINDS[v - NPLAIN]; *n = 2; *nested = 1; }
	else if (v < NPLAIN + NNESTED + NSLOW) { *kind = K_NARROW_SLOW; *n = NS[2 + v - NPLAIN - NNESTED]; *nested = 0; }
	else { int b = v - NPLAIN - NNESTED - NSLOW; *kind = b < 2 ? K_BUSY_SERIAL : K_BUSY_BARRIER; *n = 1 + b % 2; *nested = 0; }
}
static void describe(int v, char *b, size_t len)
{
	int k, n, ne; decode(v, &k, &n, &ne);
	snprintf(b, len, "dispatch_apply(%d, %s)%s", n, KINDS[k], ne ? " with a nested dispatch_apply(2) in every iteration (inner target: same queue; APPLY_AUTO when the outer queue is serial)" : "");
}

static void run(int v)
{
	decode(v, &g_kind, &g_n, &g_nested);
	g_barrier_done = 0; g_busy_started = 0;
	vx_set_horizon(12ull * 1000000000ull);
	g_bottom = NULL;
	switch (g_kind) {
	case K_AUTO: case K_GLOBAL: g_q = dispatch_get_global_queue(0, 0); break;
	case K_SERIAL: case K_BUSY_SERIAL: g_q = dispatch_queue_create("vx.apply", NULL); break;
	case K_CONC: case K_CONC_BARRIER: case K_BUSY_BARRIER: g_q = dispatch_queue_create("vx.apply", DISPATCH_QUEUE_CONCURRENT); break;
	case K_CONC_SERIAL:
		g_bottom = dispatch_queue_create("vx.bottom", NULL);
		g_q = dispatch_queue_create_with_target("vx.apply", DISPATCH_QUEUE_CONCURRENT, g_bottom); break;
	case K_NARROW: case K_NARROW_SLOW: g_q = dispatch_queue_create("vx.apply", DISPATCH_QUEUE_CONCURRENT); dispatch_queue_set_width(g_q, 2); break;
	}
	warm(g_q);
	warm(dispatch_get_global_queue(0, 0));
	int th = -1;
	vx_focus_begin();
	if (g_kind == K_CONC_BARRIER) th = vx_thread(racer, NULL);
	if (g_kind == K_BUSY_SERIAL || g_kind == K_BUSY_BARRIER) {
		if (g_kind == K_BUSY_SERIAL) dispatch_async_f(g_q, NULL, busy_fn); else dispatch_barrier_async_f(g_q, NULL, busy_fn);
		int *a[2] = { &g_busy_started, (int *)(intptr_t)1 };
		vx_wait_until(pred_int_ge, a);
	}
	vx_ev(EV_CALL, 1, g_n);
	dispatch_apply_f((size_t)g_n, g_kind == K_AUTO ? DISPATCH_APPLY_AUTO : g_q, NULL, outer_fn);
	vx_ev(EV_RET, 1, 0);
	if (g_kind != K_AUTO && g_kind != K_GLOBAL) {
		// the width reserved for the apply must have been given back on every level: a barrier submitted now has to run
		dispatch_barrier_sync_f(g_q, NULL, post_fn);
	}
	if (th >= 0) {
		vx_join(th);
		int *a[2] = { &g_barrier_done, (int *)(intptr_t)1 };
		vx_wait_until(pred_int_ge, a);
	}
	vx_focus_end();
}

static int check(int v, const vx_log *l, char *msg, size_t len)
{
	int kind, n, nested; decode(v, &kind, &n, &nested);
	int ret = ev_first(l, EV_RET, 1);
	if (ret < 0) FAILF(msg, len, "dispatch_apply did not return");
	int serial = (kind == K_SERIAL || kind == K_CONC_SERIAL || kind == K_BUSY_SERIAL);
	int prev_end = -1;
	// no index outside 0..n-1, each exactly once
	for (uint32_t i = 0; i < l->n; i++) {
		const vx_event *e = &l->ev[i];
		if (e->kind == EV_START && e->id >= 100 && e->id % 100 == 0 && e->id != BARRIER_ITEM) {
			if (e->arg < 0 || e->arg >= n) FAILF(msg, len, "work function invoked with index %lld outside 0..%d", (long long)e->arg, n - 1);
		}
	}
	for (int i = 0; i < n; i++) {
		int id = 100 * (i + 1);
		int sc = ev_count(l, EV_START, id), ec = ev_count(l, EV_END, id);
		if (sc != 1 || ec != 1) FAILF(msg, len, "index %d was started %d times and finished %d times", i, sc, ec);
		int st = ev_first(l, EV_START, id), en = ev_first(l, EV_END, id);
		if (en > ret) FAILF(msg, len, "dispatch_apply returned (event #%d) before iteration %d finished (event #%d)", ret, i, en);
		if (serial) {
			if (st < prev_end) FAILF(msg, len, "iterations on a serial hierarchy are not sequential in index order: iteration %d started (event #%d) before iteration %d finished (event #%d)", i, st, i - 1, prev_end);
			prev_end = en;
		}
		if (nested) {
			int r = ev_first(l, EV_RET, id);
			for (int j = 0; j < 2; j++) {
				int iid = id + j + 1;
				if (ev_count(l, EV_START, iid) != 1 || ev_count(l, EV_END, iid) != 1) FAILF(msg, len, "nested apply of iteration %d: index %d ran %d times", i, j, ev_count(l, EV_START, iid));
				if (ev_first(l, EV_END, iid) > r) FAILF(msg, len, "nested apply of iteration %d returned before its index %d finished", i, j);
			}
		}
	}
	if (kind != K_AUTO && kind != K_GLOBAL && ev_count(l, EV_NOTE, 7) != 1) FAILF(msg, len, "the barrier submitted after dispatch_apply returned did not run");
	if (kind == K_NARROW || kind == K_NARROW_SLOW) {
		// iterations are non-barrier items of a queue whose width is 2: at most 2 may be in flight
		int open_n = 0;
		for (uint32_t i = 0; i < l->n; i++) {
			const vx_event *e = &l->ev[i];
			if (e->id < 100 || e->id % 100 || e->id == BARRIER_ITEM) continue;
			if (e->kind == EV_START && ++open_n > 2) FAILF(msg, len, "%d apply iterations in flight at event #%u on a concurrent queue narrowed to width 2", open_n, i);
			if (e->kind == EV_END) open_n--;
		}
	}
	if (kind == K_CONC_BARRIER || kind == K_BUSY_SERIAL || kind == K_BUSY_BARRIER) {
		int bs = ev_first(l, EV_START, BARRIER_ITEM), be = ev_first(l, EV_END, BARRIER_ITEM);
		if (bs < 0 || be < 0 || ev_count(l, EV_START, BARRIER_ITEM) != 1) FAILF(msg, len, "the racing barrier item did not run exactly once");
		for (int i = 0; i < n; i++) {
			int st = ev_first(l, EV_START, 100 * (i + 1)), en = ev_first(l, EV_END, 100 * (i + 1));
			if (st < be && bs < en) FAILF(msg, len, "%s [#%d,#%d] overlapped apply iteration %d [#%d,#%d] on the %s queue", kind == K_BUSY_SERIAL ? "the running item" : "barrier item", bs, be, i, st, en, kind == K_BUSY_SERIAL ? "serial" : "concurrent");
		}
	}
	return 0;
}

const vx_harness h_apply = { "apply", "C10", nvariants, describe, run, check, 0, 0 };
