// heap_c11 — C11 (structural half): the timer double heap against a sorted-multiset model.
//
// The real static heap functions of src/event/event.c are reached through the guarded shim
// (_dispatch_verif_heap_*).  Two enumerations, both exhaustive within their bound:
//  (a) explicit-state BFS from the empty heap over insert(key) / remove(i) / update(i,key) while at
//      most N timers are live, until no new canonical state appears.  A state is the slot array of
//      (target,deadline) pairs, i.e. the complete structural content of the heap: every operation's
//      behaviour is a function of exactly that array (timer identities never matter), so merging
//      histories that reach the same array cannot hide a future.  States are rebuilt by replaying
//      their (shortest) history on a fresh heap.
//  (b) prefilled heaps of every size 0..40 (ascending, descending, zig-zag key order; crosses the
//      segment growth points at 5, 9, 17 and 33 timers and the matching shrinks) x all operation
//      suffixes of depth D over insert(12 keys) / remove / update(12 keys) of 5 distinguished timers
//      (first, last, middle, current target-minimum, current deadline-minimum).
// Oracle after every operation: count, min[TARGET] and min[DEADLINE] equal the model's minima, every
// slot holds a live timer whose back-pointer names that slot, every live timer is in both heaps,
// heap order holds in both interleaved heaps; ASan (children are forked per work unit).
#define _GNU_SOURCE
#include <errno.h>
#include <fcntl.h>
#include <stdint.h>
#include <stdio.h>
#include <stdlib.h>
#include <string.h>
#include <sys/mman.h>
#include <sys/stat.h>
#include <sys/wait.h>
#include <time.h>
#include <unistd.h>

extern void *_dispatch_verif_heap_new(void);
extern void _dispatch_verif_heap_free(void *h);
extern void *_dispatch_verif_heap_timer_new(uint64_t target, uint64_t deadline);
extern void _dispatch_verif_heap_timer_set(void *t, uint64_t target, uint64_t deadline);
extern void _dispatch_verif_heap_insert(void *h, void *t);
extern void _dispatch_verif_heap_remove(void *h, void *t);
extern void _dispatch_verif_heap_update(void *h, void *t);
extern void *_dispatch_verif_heap_min(void *h, unsigned which);
extern uint32_t _dispatch_verif_heap_count(void *h);
extern void *_dispatch_verif_heap_slot(void *h, uint32_t idx);
extern uint32_t _dispatch_verif_heap_entry(void *t, unsigned which);
extern uint64_t _dispatch_verif_heap_key(void *t, unsigned which);

#define NKEYS 12
static uint64_t KT[NKEYS], KD[NKEYS];
static void init_keys(void)
{
	static const uint64_t T[] = { 1, 2, 3, 4 }, D[] = { 0, 1, 3 };
	int k = 0;
	for (int i = 0; i < 4; i++) for (int j = 0; j < 3; j++) { KT[k] = T[i]; KD[k] = T[i] + D[j]; k++; }
}

#define MAXLIVE 64
typedef struct { void *h; void *t[MAXLIVE]; int key[MAXLIVE]; int n; } heapx;

// op encoding: 0..11 insert key; 100+i*16+k update timer i to key k (k<12); 100+i*16+15 remove timer i
static int op_insert(int k) { return k; }
static int op_update(int i, int k) { return 100 + i * 16 + k; }
static int op_remove(int i) { return 100 + i * 16 + 15; }

static char g_err[512];

static int invariant(heapx *x)
{
	uint32_t n = _dispatch_verif_heap_count(x->h);
	if ((int)n != x->n) { snprintf(g_err, sizeof g_err, "count %u, model %d", n, x->n); return 1; }
	if (x->n == 0) {
		if (_dispatch_verif_heap_min(x->h, 0) || _dispatch_verif_heap_min(x->h, 1)) { snprintf(g_err, sizeof g_err, "empty heap has a minimum"); return 1; }
		return 0;
	}
	uint64_t mt = UINT64_MAX, md = UINT64_MAX;
	for (int i = 0; i < x->n; i++) { if (KT[x->key[i]] < mt) mt = KT[x->key[i]]; if (KD[x->key[i]] < md) md = KD[x->key[i]]; }
	void *m0 = _dispatch_verif_heap_min(x->h, 0), *m1 = _dispatch_verif_heap_min(x->h, 1);
	if (!m0 || !m1) { snprintf(g_err, sizeof g_err, "minimum missing"); return 1; }
	if (_dispatch_verif_heap_key(m0, 0) != mt) { snprintf(g_err, sizeof g_err, "min target %llu, model %llu", (unsigned long long)_dispatch_verif_heap_key(m0, 0), (unsigned long long)mt); return 1; }
	if (_dispatch_verif_heap_key(m1, 1) != md) { snprintf(g_err, sizeof g_err, "min deadline %llu, model %llu", (unsigned long long)_dispatch_verif_heap_key(m1, 1), (unsigned long long)md); return 1; }
	for (int i = 0; i < x->n; i++) {
		if (_dispatch_verif_heap_key(x->t[i], 0) != KT[x->key[i]] || _dispatch_verif_heap_key(x->t[i], 1) != KD[x->key[i]]) { snprintf(g_err, sizeof g_err, "timer keys were modified"); return 1; }
		for (unsigned w = 0; w < 2; w++) {
			uint32_t e = _dispatch_verif_heap_entry(x->t[i], w);
			if (e >= 2 * n || (e & 1) != w || _dispatch_verif_heap_slot(x->h, e) != x->t[i]) {
				snprintf(g_err, sizeof g_err, "live timer %d: heap %u back-pointer %u does not name a slot holding it", i, w, e); return 1;
			}
		}
	}
	for (uint32_t idx = 0; idx < 2 * n; idx++) {
		void *s = _dispatch_verif_heap_slot(x->h, idx);
		if (!s) { snprintf(g_err, sizeof g_err, "slot %u is empty", idx); return 1; }
		unsigned w = idx & 1;
		if (_dispatch_verif_heap_entry(s, w) != idx) { snprintf(g_err, sizeof g_err, "slot %u holds a timer whose back-pointer is %u", idx, _dispatch_verif_heap_entry(s, w)); return 1; }
		if (idx >= 2) {
			// parent in the interleaved layout: position (idx - 2) / 2, rounded down to this heap's lane
			uint32_t pidx = (((idx - 2) / 2) & ~1u) | w;
			void *ps = _dispatch_verif_heap_slot(x->h, pidx);
			if (_dispatch_verif_heap_key(ps, w) > _dispatch_verif_heap_key(s, w)) {
				snprintf(g_err, sizeof g_err, "heap order broken in heap %u: slot %u key %llu above slot %u key %llu", w, pidx,
						(unsigned long long)_dispatch_verif_heap_key(ps, w), idx, (unsigned long long)_dispatch_verif_heap_key(s, w)); return 1;
			}
		}
	}
	return 0;
}

static int apply_op(heapx *x, int op)
{
	if (op < 100) {
		if (x->n >= MAXLIVE) return -1;
		x->t[x->n] = _dispatch_verif_heap_timer_new(KT[op], KD[op]); x->key[x->n] = op; x->n++;
		_dispatch_verif_heap_insert(x->h, x->t[x->n - 1]);
	} else {
		int i = (op - 100) / 16, k = (op - 100) % 16;
		if (i >= x->n) return -1;
		if (k == 15) {
			_dispatch_verif_heap_remove(x->h, x->t[i]);
			free(x->t[i]);
			x->t[i] = x->t[x->n - 1]; x->key[i] = x->key[x->n - 1]; x->n--;
		} else {
			_dispatch_verif_heap_timer_set(x->t[i], KT[k], KD[k]); x->key[i] = k;
			_dispatch_verif_heap_update(x->h, x->t[i]);
		}
	}
	return invariant(x);
}

static void hx_init(heapx *x) { memset(x, 0, sizeof *x); x->h = _dispatch_verif_heap_new(); }
static void hx_free(heapx *x) { for (int i = 0; i < x->n; i++) { _dispatch_verif_heap_remove(x->h, x->t[i]); free(x->t[i]); } _dispatch_verif_heap_free(x->h); }

// canonical form: for each slot the key index of the timer in it (count*2 bytes)
static int canon(heapx *x, unsigned char *out)
{
	int n2 = 2 * x->n;
	for (int idx = 0; idx < n2; idx++) {
		void *s = _dispatch_verif_heap_slot(x->h, (uint32_t)idx);
		int k = -1;
		for (int i = 0; i < x->n; i++) if (x->t[i] == s) k = x->key[i];
		out[idx] = (unsigned char)(k + 1);
	}
	return n2;
}
// timers are addressed by slot order of the target heap so that the op alphabet is canonical too
static void order_by_slots(heapx *x)
{
	void *nt[MAXLIVE]; int nk[MAXLIVE];
	for (int j = 0; j < x->n; j++) {
		void *s = _dispatch_verif_heap_slot(x->h, (uint32_t)(2 * j));
		for (int i = 0; i < x->n; i++) if (x->t[i] == s) { nt[j] = s; nk[j] = x->key[i]; }
	}
	memcpy(x->t, nt, sizeof(void *) * (size_t)x->n); memcpy(x->key, nk, sizeof(int) * (size_t)x->n);
}

// ---- shared result page -------------------------------------------------------------
typedef struct {
	unsigned long long states, transitions, evals, violations;
	char first[1024];
	int cur_unit;
} shared_t;
static shared_t *g_sh;

static void report_violation(const char *where, const int *hist, int nh)
{
	if (g_sh->violations++ == 0) {
		size_t o = (size_t)snprintf(g_sh->first, sizeof g_sh->first, "%s: %s; history:", where, g_err);
		for (int i = 0; i < nh && o + 16 < sizeof g_sh->first; i++) o += (size_t)snprintf(g_sh->first + o, sizeof g_sh->first - o, " %d", hist[i]);
	}
}

// ---- (a) BFS ---------------------------------------------------------------------------
typedef struct node { struct node *next; unsigned char len; unsigned char c[2 * 8]; unsigned char hlen; unsigned short hist[24]; } node;
#define HBITS 22
static node **g_tab;
static node *lookup(const unsigned char *c, int len, int insert, const unsigned short *hist, int hlen, int *isnew)
{
	uint64_t h = 1469598103934665603ull;
	for (int i = 0; i < len; i++) { h ^= c[i]; h *= 1099511628211ull; }
	h ^= (uint64_t)len; h *= 1099511628211ull;
	size_t b = (size_t)(h >> (64 - HBITS));
	for (node *n = g_tab[b]; n; n = n->next) if (n->len == len && !memcmp(n->c, c, (size_t)len)) { *isnew = 0; return n; }
	if (!insert) return NULL;
	node *n = calloc(1, sizeof *n);
	n->len = (unsigned char)len; memcpy(n->c, c, (size_t)len); n->hlen = (unsigned char)hlen; memcpy(n->hist, hist, sizeof(unsigned short) * (size_t)hlen);
	n->next = g_tab[b]; g_tab[b] = n; *isnew = 1;
	return n;
}

static int run_bfs(int maxlive, int maxdepth, unsigned long long cap, int *hitcap, int *depth_reached)
{
	g_tab = calloc((size_t)1 << HBITS, sizeof(node *));
	node **frontier = malloc(sizeof(node *) * 1), **next = NULL; size_t nf = 0, nn = 0, capn = 0;
	unsigned char c[16]; int isnew;
	node *root = lookup(c, 0, 1, NULL, 0, &isnew);
	frontier[nf++] = root; g_sh->states = 1;
	for (int depth = 0; depth < maxdepth && nf; depth++) {
		nn = 0;
		for (size_t f = 0; f < nf; f++) {
			node *s = frontier[f];
			// enumerate ops from this state
			int live = s->len / 2;
			int ops[NKEYS + 8 * 16], no = 0;
			if (live < maxlive) for (int k = 0; k < NKEYS; k++) ops[no++] = op_insert(k);
			for (int i = 0; i < live; i++) { ops[no++] = op_remove(i); for (int k = 0; k < NKEYS; k++) ops[no++] = op_update(i, k); }
			for (int oi = 0; oi < no; oi++) {
				heapx x; hx_init(&x);
				int hist[32], nh = 0, bad = 0;
				for (int i = 0; i < s->hlen; i++) { hist[nh++] = s->hist[i]; if (apply_op(&x, s->hist[i])) { bad = 1; break; } order_by_slots(&x); }
				if (!bad) {
					hist[nh++] = ops[oi];
					g_sh->transitions++;
					int r = apply_op(&x, ops[oi]);
					g_sh->evals++;
					if (r > 0) { report_violation("bfs", hist, nh); }
					else if (r == 0) {
						order_by_slots(&x);
						int len = canon(&x, c);
						unsigned short h2[24]; for (int i = 0; i < nh; i++) h2[i] = (unsigned short)hist[i];
						node *t = lookup(c, len, 1, h2, nh, &isnew);
						if (isnew) {
							g_sh->states++;
							if (nn == capn) { capn = capn ? capn * 2 : 1024; next = realloc(next, sizeof(node *) * capn); }
							next[nn++] = t;
						}
					}
				} else report_violation("bfs-replay", hist, nh);
				hx_free(&x);
				if (g_sh->states >= cap) { *hitcap = 1; *depth_reached = depth + 1; return 0; }
			}
		}
		node **tmp = frontier; frontier = next; next = tmp; nf = nn; capn = 0; next = NULL;
		*depth_reached = depth + 1;
		if (!nf) return 1;   // fixpoint
	}
	return nf == 0;
}

// ---- (b) prefilled suffixes -------------------------------------------------------------
static int fill_key(int fill, int j, int s)
{
	switch (fill) {
	case 0: return j % NKEYS;                              // ascending (cyclic over the 12 keys)
	case 1: return (NKEYS - 1) - (j % NKEYS);              // descending
	default: return (j & 1) ? (NKEYS - 1) - ((j / 2) % NKEYS) : (j / 2) % NKEYS;  // zig-zag
	}
	(void)s;
}
static int pick(heapx *x, int which)
{
	if (x->n == 0) return -1;
	void *t = NULL;
	switch (which) {
	case 0: return 0;
	case 1: return x->n - 1;
	case 2: return x->n / 2;
	case 3: t = _dispatch_verif_heap_min(x->h, 0); break;
	case 4: t = _dispatch_verif_heap_min(x->h, 1); break;
	}
	for (int i = 0; i < x->n; i++) if (x->t[i] == t) return i;
	return -1;
}
#define NSUF (NKEYS + 5 + 5 * NKEYS)
static int suffix_op(heapx *x, int code)
{
	if (code < NKEYS) return op_insert(code);
	code -= NKEYS;
	if (code < 5) { int i = pick(x, code); return i < 0 ? -1 : op_remove(i); }
	code -= 5;
	int i = pick(x, code / NKEYS); return i < 0 ? -1 : op_update(i, code % NKEYS);
}
static void run_suffixes(int s, int fill, int depth)
{
	int total = 1; for (int d = 0; d < depth; d++) total *= NSUF;
	for (int code = 0; code < total; code++) {
		heapx x; hx_init(&x);
		int hist[64], nh = 0, bad = 0;
		for (int j = 0; j < s; j++) { int op = op_insert(fill_key(fill, j, s)); if (apply_op(&x, op)) { bad = 1; hist[0] = -s; nh = 1; break; } }
		if (bad) { report_violation("prefill", hist, nh); hx_free(&x); return; }
		int c = code;
		for (int d = 0; d < depth; d++) {
			int op = suffix_op(&x, c % NSUF); c /= NSUF;
			if (op < 0) break;                       // not applicable on an empty heap
			hist[nh++] = op;
			g_sh->transitions++;
			int r = apply_op(&x, op);
			if (r > 0) { char w[64]; snprintf(w, sizeof w, "prefill size %d fill %d", s, fill); report_violation(w, hist, nh); break; }
		}
		g_sh->evals++;
		hx_free(&x);
	}
}

static void quiet(void) { int fd = open("/dev/null", 1); if (fd >= 0) { dup2(fd, 2); close(fd); } }
static double now_s(void) { struct timespec ts; clock_gettime(CLOCK_MONOTONIC, &ts); return (double)ts.tv_sec + (double)ts.tv_nsec / 1e9; }

int main(int argc, char **argv)
{
	const char *tier = "quick", *json = NULL, *replay = NULL;
	for (int i = 1; i < argc; i++) {
		if (!strcmp(argv[i], "--tier") && i + 1 < argc) tier = argv[++i];
		else if (!strcmp(argv[i], "--json") && i + 1 < argc) json = argv[++i];
		else if (!strcmp(argv[i], "--replay") && i + 1 < argc) replay = argv[++i];
	}
	init_keys();
	g_sh = mmap(NULL, sizeof *g_sh, PROT_READ | PROT_WRITE, MAP_SHARED | MAP_ANONYMOUS, -1, 0);
	if (replay) {
		// the replay file carries the op history after "history:"
		FILE *f = fopen(replay, "r"); if (!f) { perror(replay); return 2; }
		static char buf[8192]; size_t n = fread(buf, 1, sizeof buf - 1, f); buf[n] = 0; fclose(f);
		char *p = strstr(buf, "history:"); if (!p) { fprintf(stderr, "no history in replay file\n"); return 2; }
		p += 8;
		heapx x; hx_init(&x);
		int prefill = 0, fill = 0;
		char *q = strstr(buf, "prefill size ");
		if (q) sscanf(q, "prefill size %d fill %d", &prefill, &fill);
		for (int j = 0; j < prefill; j++) apply_op(&x, op_insert(fill_key(fill, j, prefill)));
		int rc = 0;
		for (;;) {
			char *e; long op = strtol(p, &e, 10); if (e == p) break; p = e;
			if (!q) order_by_slots(&x);
			int r = apply_op(&x, (int)op);
			printf("op %ld -> %s\n", op, r > 0 ? g_err : "ok");
			if (r > 0) { rc = 1; break; }
		}
		return rc;
	}
	int quick = !strcmp(tier, "quick");
	double t0 = now_s();
	// (a) in a forked child so that an ASan report or trap is attributed and does not kill the driver
	int bfs_live = quick ? 4 : 5, bfs_depth = 64, hitcap = 0, depth_reached = 0;
	if (getenv("HEAP_LIVE")) bfs_live = atoi(getenv("HEAP_LIVE"));
	unsigned long long cap = quick ? 400000ull : 1000000ull;
	pid_t pid = fork();
	int bfs_fix = 0, crashed = 0;
	if (pid == 0) { quiet(); int fx = run_bfs(bfs_live, bfs_depth, cap, &hitcap, &depth_reached); g_sh->cur_unit = fx | (hitcap << 1) | (depth_reached << 8); _exit(0); }
	int st; waitpid(pid, &st, 0);
	if (!WIFEXITED(st) || WEXITSTATUS(st)) { crashed++; if (!g_sh->violations++) snprintf(g_sh->first, sizeof g_sh->first, "bfs: child died (status 0x%x): sanitizer report or trap inside the heap code", st); }
	bfs_fix = g_sh->cur_unit & 1; hitcap = (g_sh->cur_unit >> 1) & 1; depth_reached = g_sh->cur_unit >> 8;
	unsigned long long bfs_states = g_sh->states, bfs_trans = g_sh->transitions;
	// (b) one child per (size, fill), 16 at a time
	int depth_all = quick ? 2 : 3;
	static const int BOUNDARY[] = { 0, 1, 3, 4, 5, 8, 9, 16, 17, 32, 33, 40 };
	int running = 0, units = 0;
	for (int s = 0; s <= 40; s++) for (int fill = 0; fill < 3; fill++) {
		int depth = depth_all, isb = 0;
		for (unsigned i = 0; i < sizeof BOUNDARY / sizeof BOUNDARY[0]; i++) if (BOUNDARY[i] == s) isb = 1;
		if (quick && isb && fill == 0) depth = 3;
		while (running >= 16) { int st2; if (wait(&st2) > 0) { running--; if (!WIFEXITED(st2) || WEXITSTATUS(st2)) { crashed++; if (!g_sh->violations++) snprintf(g_sh->first, sizeof g_sh->first, "prefill: child died (status 0x%x)", st2); } } }
		pid_t p = fork();
		if (p == 0) { quiet(); run_suffixes(s, fill, depth); _exit(0); }
		running++; units++;
	}
	while (running > 0) { int st2; if (wait(&st2) > 0) { running--; if (!WIFEXITED(st2) || WEXITSTATUS(st2)) { crashed++; if (!g_sh->violations++) snprintf(g_sh->first, sizeof g_sh->first, "prefill: child died (status 0x%x)", st2); } } }
	double wall = now_s() - t0;
	int exhaustive = bfs_fix && !hitcap && !crashed;
	char replay_path[256] = "";
	if (g_sh->violations) {
		mkdir("/verif/out", 0755); mkdir("/verif/out/replay", 0755);
		snprintf(replay_path, sizeof replay_path, "/verif/out/replay/C11-heap_c11-0.json");
		FILE *f = fopen(replay_path, "w");
		if (f) { fprintf(f, "{\"engine\": \"seqx\", \"replay_cmd\": [\"/verif/build/seqx/heap_c11\", \"--replay\", \"{replay}\"], \"what\": \"%s\"}\n", g_sh->first); fclose(f); }
	}
	FILE *jf = json ? fopen(json, "w") : stdout;
	fprintf(jf, "{\"name\": \"heap_c11\", \"property\": \"C11\", \"tier\": \"%s\", \"bound\": \"(a) BFS over insert/remove/update with 12 (target,deadline) keys while <=%d timers are live: %s after depth %d, %llu canonical slot arrays; "
			"(b) prefilled sizes 0..40 x 3 fill orders x all suffixes of depth %d (depth 3 at the segment boundary sizes) over %d operations\", "
			"\"states\": %llu, \"transitions\": %llu, \"evaluations\": %llu, \"distinct_outcomes\": %llu, \"traces_validated_against_impl\": %llu, \"exhaustive\": %s, "
			"\"samples\": [{\"op_encoding\": \"0..11 insert key k=(target,deadline); 100+16*i+k update timer i to key k; 100+16*i+15 remove timer i\"}, {\"bfs_history_example\": [0, 5, 116, 111]}, {\"prefill\": \"size 9 ascending, suffix: remove target-minimum, insert key 11, update last to key 0\"}], "
			"\"violations_list\": [", tier, bfs_live, bfs_fix ? "fixpoint reached" : "stopped", depth_reached, bfs_states, depth_all, NSUF,
			bfs_states, g_sh->transitions, g_sh->evals, bfs_states, g_sh->evals, exhaustive ? "true" : "false");
	if (g_sh->violations) fprintf(jf, "{\"signature\": \"heap: %s\", \"replay\": \"%s\"}", g_sh->first, replay_path);
	fprintf(jf, "], \"bfs_transitions\": %llu, \"prefill_units\": %d, \"wall_s\": %.2f}\n", bfs_trans, units, wall);
	if (jf != stdout) fclose(jf);
	printf("heap_c11 %s: bfs %llu states (%s, depth %d), %llu transitions, %llu evaluations, %llu violations, exhaustive=%d, %.1fs\n", tier, bfs_states,
			bfs_fix ? "fixpoint" : "capped", depth_reached, g_sh->transitions, g_sh->evals, g_sh->violations, exhaustive, wall);
	if (g_sh->violations) printf("VIOLATION %s\n", g_sh->first);
	return g_sh->violations ? 1 : 0;
}
