// Program tables for the queue properties C01–C05 (DSL: qprog.h)
#include "qprog.h"

// C01: exactly once, nothing stranded, async never waits
static const char *const T_C01[] = {
	// ping-pong on one serial queue: the empty<->non-empty hand-off (DIRTY re-check)
	"S0 | p0 p0",
	"S0 | p0 a0 | a0",
	"S0 | a0 a0 | a0",
	"S0 | a0 s0 | a0",
	"S0 | a0 | s0",
	"S0 | a0 | B0",
	"S0 | s0 | s0",
	"S0 | a0 | w0",
	"S0 | b0 | a0",
	"S0 | g0 | a0",
	"C0 | a0 | a0",
	"C0 | a0 b0 | a0",
	"C0 | b0 | s0",
	"C0 | a0 | B0",
	"C0 | s0 | w0",
	"S0 S1>0 | a1 | a0",
	"S0 S1>0 | a1 | s1",
	"S0 C1>0 | a1 a1 | s1",
	"S0 S1>0 S2>1 | a2 | s2",
	"G0 C1>0 | a1 | a1",
	"G0 S1>0 | p1 p1",
	"G0 | a0 | a0",
	"G0 | a0 a0",
	"gate; S0 | a0 a0 | a0",
	"gate; C0 | a0 b0 | a0",
	"gate; G0 | a0 | a0",
	"cold; S0 | a0 | a0",
	"cold; G0 | a0 | a0",
	"cold; S0 | a0 s0",
	0
};
QP_HARNESS(h_q01, "q01", "C01", T_C01, 0);
