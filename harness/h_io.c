// C14 — dispatch I/O: every byte once, in order; each operation completes once
//
// Explored in I/O-point mode: the schedule branches only at the library's read/write/pread/pwrite on
// the watched descriptor, where (a) the peer's next scripted move (write a chunk, drain, close) may
// land first and (b) one answer per execution may be replaced by a short transfer, EINTR or EAGAIN.
// Library-internal interleaving follows the default schedule.
#define _GNU_SOURCE
#include "hcommon.h"
#include <sys/socket.h>
#include <dispatch/private.h>
#include <errno.h>
#include <fcntl.h>
#include <unistd.h>
#include <Block.h>

enum { S_READ, S_READ2, S_READ_BARRIER_READ, S_CLOSE_INFLIGHT, S_STOP_INFLIGHT, S_READ_AFTER_CLOSE, S_WRITE, S_FILE_RANDOM, S_FILE_STREAM, S_INTERVAL, S_SOCK_RESET, S_WRITE_STOP, S_TWO_CHANNELS };
typedef struct { int kind; const char *name; int n; int chunks[5]; size_t len; size_t hw, lw; } scen;
#define MAXSC 200
static scen SC[MAXSC];
static int NSC;
static char g_names[MAXSC][160];
#define INF ((size_t)-1)

static void add(int kind, const char *what, int n, const int *chunks, size_t len, size_t hw, size_t lw)
{
	scen *s = &SC[NSC];
	s->kind = kind; s->n = n; s->len = len; s->hw = hw; s->lw = lw;
	char c[32] = ""; size_t o = 0;
	for (int i = 0; i < 5; i++) { s->chunks[i] = chunks ? chunks[i] : 0; if (s->chunks[i]) o += (size_t)snprintf(c + o, sizeof c - o, "%s%d", o ? "+" : "", s->chunks[i]); }
	char l[24], h[24], w[24];
	if (len == INF) snprintf(l, sizeof l, "SIZE_MAX"); else snprintf(l, sizeof l, "%zu", len);
	if (hw == INF) snprintf(h, sizeof h, "default"); else snprintf(h, sizeof h, "%zu", hw);
	if (lw == INF) snprintf(w, sizeof w, "default"); else snprintf(w, sizeof w, "%zu", lw);
	snprintf(g_names[NSC], sizeof g_names[0], "%s; peer writes %d bytes as [%s] then closes; length %s, high water %s, low water %s", what, n, c, l, h, w);
	s->name = g_names[NSC];
	NSC++;
}
static void build(void)
{
	if (NSC) return;
	static const int C3[][5] = { { 3 }, { 1, 2 }, { 2, 1 }, { 1, 1, 1 } };
	static const int C4[][5] = { { 4 }, { 1, 3 }, { 2, 2 }, { 3, 1 }, { 1, 1, 2 }, { 1, 2, 1 }, { 2, 1, 1 }, { 1, 1, 1, 1 } };
	static const size_t LENS[] = { 2, 3, 5, INF };
	static const size_t HW[] = { INF, 1, 2 };
	for (int c = 0; c < 4; c++) for (int l = 0; l < 4; l++) for (int h = 0; h < 3; h++)
		add(S_READ, "stream read on a pipe", 3, C3[c], LENS[l], HW[h], INF);
	for (int c = 0; c < 4; c++) add(S_READ, "stream read on a pipe", 3, C3[c], INF, INF, 1);      // low water 1: deliver as it arrives
	for (int c = 0; c < 8; c++) add(S_READ2, "two reads of 2 bytes back to back", 4, C4[c], 2, INF, INF);
	for (int c = 0; c < 8; c += 2) add(S_READ_BARRIER_READ, "read 2, barrier, read 2", 4, C4[c], 2, INF, INF);
	for (int c = 0; c < 4; c++) add(S_CLOSE_INFLIGHT, "read SIZE_MAX in flight, then dispatch_io_close(0)", 3, C3[c], INF, INF, INF);
	for (int c = 0; c < 4; c++) add(S_STOP_INFLIGHT, "read SIZE_MAX in flight, then dispatch_io_close(DISPATCH_IO_STOP)", 3, C3[c], INF, INF, 1);
	add(S_READ_AFTER_CLOSE, "read scheduled after dispatch_io_close", 3, C3[0], 3, INF, INF);
	static const int D1[5] = { 4096, 8 }, D2[5] = { 1000, 3096, 8 }, D3[5] = { 1, 4103 };
	add(S_WRITE, "write of 4104 bytes (two leaves) into a 4 KiB pipe; the peer drains", 4104, D1, 0, INF, INF);
	add(S_WRITE, "write of 4104 bytes (two leaves) into a 4 KiB pipe; the peer drains", 4104, D2, 0, INF, INF);
	add(S_WRITE, "write of 4104 bytes (two leaves) into a 4 KiB pipe; the peer drains", 4104, D3, 0, INF, INF);
	add(S_FILE_RANDOM, "random-access channel on a regular file 'abcdef': read offset 2 length 3", 6, NULL, 3, INF, INF);
	add(S_FILE_RANDOM, "random-access channel on a regular file 'abcdef': read offset 4 length 5 (crosses EOF)", 6, NULL, 5, 2, INF);
	add(S_FILE_STREAM, "stream channel on a regular file 'abcdef': read SIZE_MAX", 6, NULL, INF, 4, INF);
	for (int c = 0; c < 4; c++) add(S_INTERVAL, "stream read with a 1 ms interval and low water 2", 3, C3[c], INF, INF, 2);
	// bounded reads with intermediate deliveries (low water 1) and surplus bytes on the descriptor
	for (int c = 0; c < 4; c++) add(S_READ, "bounded stream read with low water 1", 3, C3[c], 2, INF, 1);
	for (int c = 0; c < 8; c++) add(S_READ, "bounded stream read with low water 1", 4, C4[c], 3, INF, 1);
	for (int c = 0; c < 8; c += 3) add(S_READ2, "two reads of 2 bytes back to back, low water 1", 4, C4[c], 2, INF, 1);
	// a read that ends with a descriptor error after some bytes: AF_UNIX stream socket whose peer closes with unread data
	for (int c = 0; c < 2; c++) add(S_SOCK_RESET, "stream read on a socket; the peer closes with unread data of its own (ECONNRESET after the bytes)", 3, C3[c], INF, INF, INF);
	for (int c = 0; c < 2; c++) add(S_SOCK_RESET, "stream read on a socket; the peer closes with unread data of its own (ECONNRESET after the bytes)", 3, C3[c], INF, INF, 1);
	// a write interrupted by DISPATCH_IO_STOP while a chunk is only partly written: the data reported as unwritten is exactly the remainder
	add(S_WRITE_STOP, "write of 4104 bytes (two leaves) into a 4 KiB pipe, then dispatch_io_close(DISPATCH_IO_STOP); the peer drains", 4104, D1, 0, INF, INF);
	add(S_WRITE_STOP, "write of 4104 bytes (two leaves) into a 4 KiB pipe, then dispatch_io_close(DISPATCH_IO_STOP); the peer drains", 4104, D2, 0, INF, INF);
	add(S_WRITE_STOP, "write of 4104 bytes (two leaves) into a 4 KiB pipe, then dispatch_io_close(DISPATCH_IO_STOP); the peer drains", 4104, D2, 0, INF, 1);
	// two channels on one descriptor: stopping one must not touch the other's operations
	add(S_TWO_CHANNELS, "two channels on one pipe: B writes 4104 bytes, A is closed with DISPATCH_IO_STOP; the peer drains", 4104, D1, 0, INF, INF);
	add(S_TWO_CHANNELS, "two channels on one pipe: B writes 4104 bytes, A is closed with DISPATCH_IO_STOP; the peer drains", 4104, D2, 0, INF, INF);
	// stop while bytes are buffered below the (default) low-water mark: they must still reach the handler
	for (int c = 0; c < 4; c++) add(S_STOP_INFLIGHT, "read SIZE_MAX in flight, then dispatch_io_close(DISPATCH_IO_STOP)", 3, C3[c], INF, INF, INF);
}

// ---- per-operation records -----------------------------------------------------------------
#define MAXOPS 3
typedef struct { unsigned char data[8300]; size_t n; int done, ninv, err, reentered, open, max_chunk, after_done, not_suffix; } oprec;
static oprec g_op[MAXOPS];
static int g_cleanup, g_cleanup_err, g_barrier, g_cleanup2;
static dispatch_io_t g_ch2;
static int g_fd[2], g_ffd = -1;
static const scen *g_s;
static dispatch_io_t g_ch;
static dispatch_queue_t g_hq, g_cq;
enum { EV_IOH = EV_USER, EV_IODONE, EV_CLEANUP, EV_BARRIER_S, EV_BARRIER_E, EV_PEER, EV_SUBMIT, EV_CLOSE };
static unsigned char g_payload[4104];

static dispatch_io_handler_t mkhandler(int op)
{
	return Block_copy(^(bool done, dispatch_data_t data, int error) {
		oprec *r = &g_op[op];
		if (r->open) r->reentered = 1;
		r->open = 1;
		if (r->done) r->after_done = 1;
		size_t sz = data ? dispatch_data_get_size(data) : 0;
		vx_ev(EV_IOH, op, (int64_t)sz);
		r->ninv++;
		if ((int)sz > r->max_chunk) r->max_chunk = (int)sz;
		int iswrite = (g_s->kind == S_WRITE || g_s->kind == S_WRITE_STOP || g_s->kind == S_TWO_CHANNELS);
		if (iswrite) r->n = 0;      // a write handler is told the data that REMAINS to be written: only the last report counts
		if (data && sz) {
			dispatch_data_apply(data, ^bool(dispatch_data_t rg, size_t off, const void *buf, size_t len) {
				(void)rg; (void)off;
				if (r->n + len <= sizeof r->data) { memcpy(r->data + r->n, buf, len); r->n += len; }
				return true;
			});
		}
		if (iswrite && r->n && (r->n > sizeof g_payload || memcmp(r->data, g_payload + sizeof g_payload - r->n, r->n))) r->not_suffix = 1;
		vx_point();
		if (done) { r->done++; r->err = error; vx_ev(EV_IODONE, op, error); }
		r->open = 0;
	});
}

static void peer(void *arg)
{
	(void)arg;
	if (g_s->kind == S_WRITE || g_s->kind == S_WRITE_STOP || g_s->kind == S_TWO_CHANNELS) {
		// drain the pipe in the scripted chunks
		static unsigned char sink[4104];
		for (int i = 0; i < 5 && g_s->chunks[i]; i++) {
			vx_wait_idle();
			size_t got = 0;
			while (got < (size_t)g_s->chunks[i]) {
				ssize_t r = vx_real_read(g_fd[0], sink, (size_t)g_s->chunks[i] - got);
				if (r <= 0) break;
				got += (size_t)r;
			}
			vx_ev(EV_PEER, i, (int64_t)got);
		}
		return;
	}
	size_t off = 0;
	for (int i = 0; i < 5 && g_s->chunks[i]; i++) {
		vx_wait_idle();
		if (vx_real_write(g_fd[1], g_payload + off, (size_t)g_s->chunks[i]) != g_s->chunks[i]) vx_fail("peer write");
		off += (size_t)g_s->chunks[i];
		vx_ev(EV_PEER, i, g_s->chunks[i]);
	}
	vx_wait_idle();
	vx_real_close(g_fd[1]);
	vx_ev(EV_PEER, 9, 0);
}

static int nvariants(void) { build(); return NSC; }
static void describe(int v, char *b, size_t n) { build(); snprintf(b, n, "%s", SC[v].name); }
static void warm_fn(void *c) { *(int *)c = 1; }
static void wait_int(int *p, int n) { int *a[2] = { p, (int *)(intptr_t)n }; vx_wait_until(pred_int_ge, a); }
static int ops_done_pred(void *n) { int want = (int)(intptr_t)n, c = 0; for (int i = 0; i < MAXOPS; i++) c += g_op[i].done ? 1 : 0; return c >= want; }

static void run(int v)
{
	build();
	g_s = &SC[v];
	memset(g_op, 0, sizeof g_op); g_cleanup = g_barrier = g_cleanup2 = 0; g_cleanup_err = -1;
	for (size_t i = 0; i < sizeof g_payload; i++) g_payload[i] = (unsigned char)('a' + i % 23);
	vx_set_horizon(8ull * 1000000000ull);
	vx_set_io_only(getenv("VX_IO_FULL") ? 0 : 1, getenv("VX_IO_FULL") ? 0 : 1);   // VX_IO_FULL: ordinary preemption bounding over every point instead
	if (g_s->kind == S_INTERVAL) vx_set_time_deviations(0);
	// handlers run on a concurrent queue (so that re-entrance of one operation's handler would be possible if the library
	// allowed it), except where the order of completion of different operations is observed: only a serial handler queue
	// turns "completed (= final handler submitted) in submission order" into an order of handler invocations
	int ordered = (g_s->kind == S_READ2 || g_s->kind == S_READ_BARRIER_READ);
	g_hq = dispatch_queue_create("vx.io.handlers", ordered ? DISPATCH_QUEUE_SERIAL : DISPATCH_QUEUE_CONCURRENT);
	g_cq = dispatch_queue_create("vx.io.cleanup", NULL);
	int d = 0; dispatch_async_f(g_hq, &d, warm_fn); wait_int(&d, 1);
	d = 0; dispatch_async_f(g_cq, &d, warm_fn); wait_int(&d, 1);
	int fd;
	int isfile = (g_s->kind == S_FILE_RANDOM || g_s->kind == S_FILE_STREAM);
	if (isfile) {
		char path[] = "/verif/out/tmp/vxio.XXXXXX";
		g_ffd = mkstemp(path);
		if (g_ffd < 0) vx_fail("mkstemp: %d", errno);
		unlink(path);
		if (vx_real_write(g_ffd, "abcdef", 6) != 6) vx_fail("file write");
		lseek(g_ffd, 0, SEEK_SET);
		fd = g_ffd;
	} else {
		if (g_s->kind == S_SOCK_RESET) {
			if (socketpair(AF_UNIX, SOCK_STREAM, 0, g_fd)) vx_fail("socketpair");
			if (vx_real_write(g_fd[0], "x", 1) != 1) vx_fail("socket write");   // never read by the peer: its close resets the connection
		} else if (pipe(g_fd)) vx_fail("pipe");
		fcntl(g_fd[0], F_SETFL, O_NONBLOCK); fcntl(g_fd[1], F_SETFL, O_NONBLOCK);
		int wr = (g_s->kind == S_WRITE || g_s->kind == S_WRITE_STOP || g_s->kind == S_TWO_CHANNELS);
		if (wr) fcntl(g_fd[1], F_SETPIPE_SZ, 4096);
		fd = wr ? g_fd[1] : g_fd[0];
	}
	vx_io_watch(fd);
	vx_focus_begin();
	g_ch = dispatch_io_create(g_s->kind == S_FILE_RANDOM ? DISPATCH_IO_RANDOM : DISPATCH_IO_STREAM, fd, g_cq, ^(int error) {
		vx_ev(EV_CLEANUP, 0, error); g_cleanup++; g_cleanup_err = error;
	});
	if (!g_ch) vx_fail("dispatch_io_create returned NULL");
	if (g_s->hw != INF) dispatch_io_set_high_water(g_ch, g_s->hw);
	if (g_s->lw != INF) dispatch_io_set_low_water(g_ch, g_s->lw);
	if (g_s->kind == S_INTERVAL) dispatch_io_set_interval(g_ch, 1 * MS, 0);
	int th = isfile ? -1 : vx_thread(peer, NULL);
	int nops = 1;
	switch (g_s->kind) {
	case S_READ: case S_FILE_STREAM: case S_INTERVAL: case S_SOCK_RESET:
		vx_ev(EV_SUBMIT, 0, 0); dispatch_io_read(g_ch, 0, g_s->len, g_hq, mkhandler(0)); break;
	case S_FILE_RANDOM:
		vx_ev(EV_SUBMIT, 0, 0); dispatch_io_read(g_ch, g_s->len == 3 ? 2 : 4, g_s->len, g_hq, mkhandler(0)); break;
	case S_READ2:
		vx_ev(EV_SUBMIT, 0, 0); dispatch_io_read(g_ch, 0, 2, g_hq, mkhandler(0));
		vx_ev(EV_SUBMIT, 1, 0); dispatch_io_read(g_ch, 0, 2, g_hq, mkhandler(1));
		nops = 2; break;
	case S_READ_BARRIER_READ:
		vx_ev(EV_SUBMIT, 0, 0); dispatch_io_read(g_ch, 0, 2, g_hq, mkhandler(0));
		dispatch_io_barrier(g_ch, ^{ vx_ev(EV_BARRIER_S, 0, 0); vx_point(); vx_ev(EV_BARRIER_E, 0, 0); g_barrier++; });
		vx_ev(EV_SUBMIT, 1, 0); dispatch_io_read(g_ch, 0, 2, g_hq, mkhandler(1));
		nops = 2; break;
	case S_CLOSE_INFLIGHT: case S_STOP_INFLIGHT:
		vx_ev(EV_SUBMIT, 0, 0); dispatch_io_read(g_ch, 0, INF, g_hq, mkhandler(0));
		vx_wait_idle();     // the close lands at quiescence by default, or right before any library read as a deviation
		vx_ev(EV_CLOSE, 0, 0);
		dispatch_io_close(g_ch, g_s->kind == S_STOP_INFLIGHT ? DISPATCH_IO_STOP : 0);
		vx_ev(EV_SUBMIT, 1, 0); dispatch_io_read(g_ch, 0, 1, g_hq, mkhandler(1));   // after close: ECANCELED
		nops = 2; break;
	case S_READ_AFTER_CLOSE:
		vx_ev(EV_CLOSE, 0, 0);
		dispatch_io_close(g_ch, 0);
		vx_ev(EV_SUBMIT, 0, 0); dispatch_io_read(g_ch, 0, 3, g_hq, mkhandler(0)); break;
	case S_WRITE: case S_WRITE_STOP: case S_TWO_CHANNELS: {
		if (g_s->kind == S_TWO_CHANNELS) {
			g_ch2 = dispatch_io_create(DISPATCH_IO_STREAM, fd, g_cq, ^(int error) { vx_ev(EV_CLEANUP, 1, error); g_cleanup2++; });
			if (!g_ch2) vx_fail("second dispatch_io_create returned NULL");
		}
		dispatch_data_t a = dispatch_data_create(g_payload, 2052, NULL, DISPATCH_DATA_DESTRUCTOR_DEFAULT);
		dispatch_data_t b = dispatch_data_create(g_payload + 2052, 2052, NULL, DISPATCH_DATA_DESTRUCTOR_DEFAULT);
		dispatch_data_t ab = dispatch_data_create_concat(a, b);
		vx_ev(EV_SUBMIT, 0, 0); dispatch_io_write(g_ch, 0, ab, g_hq, mkhandler(0));
		dispatch_release(a); dispatch_release(b); dispatch_release(ab);
		if (g_s->kind == S_TWO_CHANNELS) {
			vx_wait_idle();     // the sibling's stop lands at a quiescence of its choice among the peer's drains
			vx_ev(EV_CLOSE, 1, 0);
			dispatch_io_close(g_ch2, DISPATCH_IO_STOP);
			dispatch_release(g_ch2);
		}
		if (g_s->kind == S_WRITE_STOP) {
			vx_wait_idle();     // by default the stop lands once the pipe is full; the peer's drains may come first (free choice at quiescence)
			vx_ev(EV_CLOSE, 0, 0);
			dispatch_io_close(g_ch, DISPATCH_IO_STOP);
		}
		break; }
	}
	vx_wait_until(ops_done_pred, (void *)(intptr_t)nops);
	if (g_s->kind != S_CLOSE_INFLIGHT && g_s->kind != S_STOP_INFLIGHT && g_s->kind != S_READ_AFTER_CLOSE && g_s->kind != S_WRITE_STOP) dispatch_io_close(g_ch, 0);
	dispatch_release(g_ch);
	wait_int(&g_cleanup, 1);
	if (g_s->kind == S_TWO_CHANNELS) wait_int(&g_cleanup2, 1);
	if (th >= 0) vx_join(th);
	vx_focus_end();
}

static int check(int v, const vx_log *l, char *msg, size_t len)
{
	const scen *s = &SC[v];
	int nops = (s->kind == S_READ2 || s->kind == S_READ_BARRIER_READ || s->kind == S_CLOSE_INFLIGHT || s->kind == S_STOP_INFLIGHT) ? 2 : 1;
	for (int i = 0; i < nops; i++) {
		oprec *r = &g_op[i];
		if (r->reentered) FAILF(msg, len, "handler of operation %d was re-entered", i);
		if (r->done != 1) FAILF(msg, len, "operation %d saw done set %d times", i, r->done);
		if (r->after_done) FAILF(msg, len, "handler of operation %d was invoked again after done", i);
		if (s->hw != INF && (size_t)r->max_chunk > s->hw && s->kind != S_WRITE && s->kind != S_WRITE_STOP && s->kind != S_TWO_CHANNELS)
			FAILF(msg, len, "operation %d delivered %d bytes in one invocation, above the high-water mark %zu", i, r->max_chunk, s->hw);
	}
	if (ev_count(l, EV_CLEANUP, 0) != 1) FAILF(msg, len, "cleanup handler ran %d times", ev_count(l, EV_CLEANUP, 0));
	int cl = ev_first(l, EV_CLEANUP, 0);
	for (uint32_t i = 0; i < l->n; i++) if (l->ev[i].kind == EV_IOH && (int)i > cl) FAILF(msg, len, "an I/O handler ran (event #%u) after the channel's cleanup handler (event #%d)", i, cl);
	size_t ncons = 0, nwr = 0;
	const unsigned char *cons = NULL, *wr = NULL;
	int isfile = (s->kind == S_FILE_RANDOM || s->kind == S_FILE_STREAM);
	int iswrite = (s->kind == S_WRITE || s->kind == S_WRITE_STOP || s->kind == S_TWO_CHANNELS);
	int fd = isfile ? g_ffd : (iswrite ? g_fd[1] : g_fd[0]);
	cons = vx_io_consumed(fd, &ncons); wr = vx_io_written(fd, &nwr);
	if (iswrite) {
		oprec *r = &g_op[0];
		if (r->not_suffix) FAILF(msg, len, "a write handler invocation was given 'remaining' data that is not a suffix of the submitted data");
		if (r->err && r->err != ECANCELED) FAILF(msg, len, "write finished with error %d", r->err);
		if (r->err && s->kind == S_TWO_CHANNELS) FAILF(msg, len, "the write on channel B finished with error %d although only its sibling channel A was stopped", r->err);
		if (r->err && s->kind == S_WRITE) FAILF(msg, len, "write finished with error %d although nothing interrupted it", r->err);
		// bytes that reached the descriptor followed by the data reported as unwritten == submitted data
		if (nwr + r->n != sizeof g_payload && !(r->err == 0 && nwr == sizeof g_payload))
			FAILF(msg, len, "write: %zu bytes reached the descriptor and %zu were reported unwritten, but %zu were submitted", nwr, r->n, sizeof g_payload);
		if (memcmp(wr, g_payload, nwr)) FAILF(msg, len, "write: the bytes that reached the descriptor are not a prefix of the submitted data");
		if (r->n && memcmp(r->data, g_payload + nwr, r->n)) FAILF(msg, len, "write: the data reported as unwritten is not the remaining suffix");
		if (r->err == 0 && nwr != sizeof g_payload) FAILF(msg, len, "write completed without error after only %zu of %zu bytes", nwr, sizeof g_payload);
		return 0;
	}
	// reads: concatenation over the operations (in submission order) of the delivered data == bytes the library consumed from the descriptor
	static unsigned char cat[16600]; size_t nc = 0;
	for (int i = 0; i < nops; i++) { memcpy(cat + nc, g_op[i].data, g_op[i].n); nc += g_op[i].n; }
	if (s->kind == S_FILE_RANDOM) {
		size_t off = s->len == 3 ? 2 : 4, want = s->len == 3 ? 3 : 2;
		if (g_op[0].n != want || memcmp(g_op[0].data, &"abcdef"[off], want)) FAILF(msg, len, "random-access read at offset %zu delivered %zu bytes '%.*s'", off, g_op[0].n, (int)g_op[0].n, g_op[0].data);
		if (g_op[0].err) FAILF(msg, len, "random-access read finished with error %d", g_op[0].err);
		return 0;
	}
	int stopped = (s->kind == S_STOP_INFLIGHT);
	if (!stopped) {
		if (nc != ncons || memcmp(cat, cons, nc))
			FAILF(msg, len, "the handlers were given %zu bytes but the library consumed %zu bytes from the descriptor (or in a different order)", nc, ncons);
	} else {
		if (nc > ncons || memcmp(cat, cons, nc)) FAILF(msg, len, "after DISPATCH_IO_STOP the delivered bytes are not a prefix of the consumed bytes");
		if (nc != ncons) FAILF(msg, len, "after DISPATCH_IO_STOP the handlers were given %zu bytes but the library had consumed %zu bytes from the descriptor", nc, ncons);
	}
	for (int i = 0; i < nops; i++) {
		size_t req = (s->kind == S_READ || s->kind == S_FILE_STREAM || s->kind == S_INTERVAL || s->kind == S_SOCK_RESET) ? s->len : (s->kind == S_READ_AFTER_CLOSE ? 3 : (i == 0 && (s->kind == S_CLOSE_INFLIGHT || s->kind == S_STOP_INFLIGHT)) ? INF : (s->kind == S_CLOSE_INFLIGHT || s->kind == S_STOP_INFLIGHT) ? 1 : 2);
		if (req != INF && g_op[i].n > req) FAILF(msg, len, "operation %d delivered %zu bytes, more than the %zu requested", i, g_op[i].n, req);
	}
	const char *src = isfile ? "abcdef" : (const char *)g_payload;
	if (memcmp(cat, src, nc)) FAILF(msg, len, "delivered bytes are not the bytes written by the peer, in order");
	if (s->kind == S_READ || s->kind == S_FILE_STREAM || s->kind == S_INTERVAL) {
		size_t total = (size_t)s->n, want = s->len == INF || s->len > total ? total : s->len;
		if (g_op[0].err == 0 && g_op[0].n != want) FAILF(msg, len, "read finished without error with %zu bytes; %zu were available and %zu requested", g_op[0].n, total, s->len);
		if (g_op[0].err) FAILF(msg, len, "read finished with error %d", g_op[0].err);
	}
	if (s->kind == S_SOCK_RESET) {
		if (g_op[0].err != ECONNRESET && g_op[0].err != 0) FAILF(msg, len, "read on the reset socket finished with error %d", g_op[0].err);
		if (g_op[0].err == 0 && g_op[0].n != (size_t)s->n) FAILF(msg, len, "read on the reset socket finished without error with %zu of %d bytes", g_op[0].n, s->n);
	}
	if (s->kind == S_READ2 || s->kind == S_READ_BARRIER_READ) {
		if (g_op[0].n != 2 || g_op[1].n != 2 || g_op[0].err || g_op[1].err) FAILF(msg, len, "the two reads delivered %zu and %zu bytes (errors %d, %d)", g_op[0].n, g_op[1].n, g_op[0].err, g_op[1].err);
		int d0 = ev_first(l, EV_IODONE, 0), d1 = ev_first(l, EV_IODONE, 1);
		if (d0 > d1) FAILF(msg, len, "stream reads completed out of submission order");
		if (s->kind == S_READ_BARRIER_READ) {
			int bs = ev_first(l, EV_BARRIER_S, 0), be = ev_first(l, EV_BARRIER_E, 0);
			if (bs < 0 || ev_count(l, EV_BARRIER_S, 0) != 1) FAILF(msg, len, "barrier block ran %d times", ev_count(l, EV_BARRIER_S, 0));
			// the barrier block owns the descriptor: the first operation's transfers are over (its 2 bytes consumed) before the
			// block starts and the library issues no transfer while it runs.  (The final handler of the first operation is only
			// guaranteed to have been submitted, not to have run: handlers and the barrier block run on different queues.)
			int64_t before = 0;
			for (uint32_t i = 0; i < l->n; i++) if (l->ev[i].kind == EV_IO) {
				if ((int)i < bs && l->ev[i].arg > 0) before += l->ev[i].arg;
				if ((int)i > bs && (int)i < be) FAILF(msg, len, "the library issued a transfer on the descriptor (event #%u) while the barrier block was running (events #%d..#%d)", i, bs, be);
			}
			if (before != 2) FAILF(msg, len, "barrier block started (event #%d) after %lld bytes had been consumed: the 2-byte read submitted before it had not finished its transfers, or the read submitted after it had already started", bs, (long long)before);
			for (uint32_t i = 0; i < l->n; i++) if (l->ev[i].kind == EV_IOH && l->ev[i].id == 1 && (int)i < be) FAILF(msg, len, "a handler of the operation submitted after the barrier ran (event #%u) before the barrier finished (event #%d)", i, be);
		}
	}
	if (s->kind == S_READ_AFTER_CLOSE) {
		if (g_op[0].err != ECANCELED || g_op[0].n) FAILF(msg, len, "a read scheduled on a closed channel finished with error %d and %zu bytes (expected ECANCELED, none)", g_op[0].err, g_op[0].n);
	}
	if (s->kind == S_CLOSE_INFLIGHT || s->kind == S_STOP_INFLIGHT) {
		if (g_op[1].err != ECANCELED || g_op[1].n) FAILF(msg, len, "a read scheduled after dispatch_io_close finished with error %d and %zu bytes (expected ECANCELED, none)", g_op[1].err, g_op[1].n);
		if (s->kind == S_CLOSE_INFLIGHT && g_op[0].err) FAILF(msg, len, "dispatch_io_close(0) interrupted an in-flight read: error %d", g_op[0].err);
		if (s->kind == S_STOP_INFLIGHT && g_op[0].err && g_op[0].err != ECANCELED) FAILF(msg, len, "stopped read finished with error %d", g_op[0].err);
	}
	return 0;
}

const vx_harness h_io = { "io", "C14", nvariants, describe, run, check, 0, 8ull * 1000000000ull };
