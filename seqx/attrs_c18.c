/*
 * attrs_c18 -- seqx driver for property C18, TABLE HALF.
 *
 *   (A) queue attribute table: every field tuple
 *         overcommit{unspecified,enabled,disabled} x autorelease{INHERIT,WORK_ITEM,NEVER}
 *         x qos{UNSPECIFIED,MAINTENANCE,BACKGROUND,UTILITY,DEFAULT,USER_INITIATED,
 *               USER_INTERACTIVE} x relpri{0..-15} x {serial,concurrent} x {active,inactive}
 *       = 3*3*7*16*2*2 = 4032 tuples (NOTE: the property text says 6048; the product is
 *       4032 and that is what DISPATCH_QUEUE_ATTR_COUNT evaluates to in this build -- the
 *       driver measures the table: 4032 distinct pointers, dense, stride 16 bytes),
 *       each built through EVERY order of the applicable constructors (<= 4! = 24, plus
 *       the variant that applies AUTORELEASE_FREQUENCY_INHERIT explicitly), a queue is
 *       created for every (tuple, order) and label / qos class / relative priority are
 *       read back; pointer identity across orders; global injectivity; closure of the
 *       table under every single constructor application from every entry (which by
 *       induction covers compositions of any length, including repeated constructors);
 *       invalid qos arguments; concurrency and initial activity observed behaviourally
 *       on one representative per (concurrency, inactive, overcommit) = 12 queues.
 *   (B) dispatch_get_global_queue(identifier, flags) for the full cross product of an
 *       identifier set (all of -32768..32767 [thorough: -2^24..2^24], every QOS constant
 *       and neighbours, every defined identifier with every single high bit 32..63 set,
 *       its 32-bit two's complement image, LONG/INT/UINT boundaries) and 67 flag values
 *       (0,1,2,3,4,8,0x80000000,~0 and every single bit).
 *
 * Reference model: written from dispatch/queue.h and private/queue_private.h only.
 * Platform clamp: a class the platform supports must be reported as itself; only the
 * two classes that a platform without pthread-workqueue QoS does not support may be
 * folded, MAINTENANCE -> BACKGROUND and USER_INTERACTIVE -> USER_INITIATED (that is what
 * src/queue.c:_dispatch_lane_create_with_target does under !HAVE_PTHREAD_WORKQUEUE_QOS);
 * reporting them as themselves is accepted too, so the model is sound for either build.
 *
 * Process model: the parent never calls into libdispatch; every library call happens in
 * forked workers that report through shared memory and publish the index of the input
 * being executed, so an ASan report / trap is attributed to exactly one input.
 */
#define _GNU_SOURCE
#include <dispatch/dispatch.h>
#include <dispatch/private.h>
#include <errno.h>
#include <fcntl.h>
#include <limits.h>
#include <stdarg.h>
#include <stdint.h>
#include <stdio.h>
#include <stdlib.h>
#include <string.h>
#include <sys/mman.h>
#include <sys/stat.h>
#include <sys/wait.h>
#include <time.h>
#include <unistd.h>

const char *__asan_default_options(void) { return "detect_leaks=0:exitcode=66"; }

#define NAME "attrs_c18"
#define PROP "C18"
#define OUT_REPLAY "/verif/out/replay"
#define OUT_TMP "/verif/out/tmp"

/* qos_class_t is not a public type on Linux (dispatch_qos_class_t is unsigned int and
 * <sys/qos.h> does not exist); these are the Darwin <sys/qos.h> values, which are also
 * the fallback definitions in src/shims/priority.h:49-57. */
enum { Q_UNSPEC, Q_MAINT, Q_BG, Q_UT, Q_DEF, Q_UI, Q_UIA, NQ };
static const unsigned QCLS[NQ] = { 0x00, 0x05, 0x09, 0x11, 0x15, 0x19, 0x21 };
static const char *QNAME[NQ] = { "UNSPECIFIED", "MAINTENANCE", "BACKGROUND", "UTILITY",
	"DEFAULT", "USER_INITIATED", "USER_INTERACTIVE" };
static const char *QLAB[NQ] = { NULL, "maintenance", "background", "utility", "default",
	"user-initiated", "user-interactive" };
static const char *OCNAME[3] = { "unspecified", "enabled", "disabled" };
static const char *AFNAME[3] = { "INHERIT", "WORK_ITEM", "NEVER" };

static int qidx_of_class(unsigned c) { for (int i = 0; i < NQ; i++) if (QCLS[i] == c) return i; return -1; }
static const char *clsname(unsigned c) { int i = qidx_of_class(c); return i < 0 ? "<not a qos class>" : QNAME[i]; }
/* may a queue whose requested/documented class is `want` report class value `got`? */
static int report_allowed(int want, unsigned got)
{
	if (got == QCLS[want]) return 1;
	if (want == Q_MAINT && got == QCLS[Q_BG]) return 1;   /* platform clamp */
	if (want == Q_UIA && got == QCLS[Q_UI]) return 1;     /* platform clamp */
	return 0;
}

/* ------------------------------------------------------------------ tuples */
#define NT (3 * 3 * 7 * 16 * 2 * 2)
typedef struct { int oc, af, q, rp, cc, in; } tup_t; /* rp = 0..15 means relpri -rp */
static int tup_index(tup_t t) { return ((((t.oc * 3 + t.af) * 7 + t.q) * 16 + t.rp) * 2 + t.cc) * 2 + t.in; }
static tup_t tup_of(int i)
{
	tup_t t; t.in = i % 2; i /= 2; t.cc = i % 2; i /= 2; t.rp = i % 16; i /= 16;
	t.q = i % 7; i /= 7; t.af = i % 3; i /= 3; t.oc = i % 3; return t;
}
/* what the attribute denotes: a relative priority is an offset within a QOS class, with
 * no class there is nothing it can denote (dispatch_queue_get_qos_class documents
 * UNSPECIFIED / 0 for every attribute without a class) */
static int canon_index(int i) { tup_t t = tup_of(i); if (t.q == Q_UNSPEC) t.rp = 0; return tup_index(t); }
static int tup_weight(tup_t t) { return (t.oc != 0) + (t.af != 0) + (t.q != 0) + (t.rp != 0) + t.cc + t.in; }
static const char *tup_str(tup_t t, char *b, size_t n)
{
	snprintf(b, n, "oc=%s,af=%s,qos=%s,relpri=%d,%s,%s", OCNAME[t.oc], AFNAME[t.af], QNAME[t.q],
		-t.rp, t.cc ? "concurrent" : "serial", t.in ? "inactive" : "active");
	return b;
}
static void tup_json(tup_t t, const char *pfx, char *b, size_t n)
{
	snprintf(b, n, "\"%soc\": %d, \"%saf\": %d, \"%sqos\": %d, \"%srelpri\": %d, \"%sconcurrent\": %d, \"%sinactive\": %d",
		pfx, t.oc, pfx, t.af, pfx, t.q, pfx, -t.rp, pfx, t.cc, pfx, t.in);
}

/* --------------------------------------------------------------- constructors */
enum { OP_OC, OP_AF, OP_QOS, OP_IN };
typedef struct { int kind, val, rp; } op_t;
static const char *op_str(op_t o, char *b, size_t n)
{
	switch (o.kind) {
	case OP_OC: snprintf(b, n, "overcommit(%s)", o.val == 1 ? "true" : "false"); break;
	case OP_AF: snprintf(b, n, "autorelease(%s)", AFNAME[o.val]); break;
	case OP_QOS: snprintf(b, n, "qos(%s,%d)", QNAME[o.val], -o.rp); break;
	default: snprintf(b, n, "inactive"); break;
	}
	return b;
}
static dispatch_queue_attr_t apply_op(dispatch_queue_attr_t a, op_t o)
{
	switch (o.kind) {
	case OP_OC: return dispatch_queue_attr_make_with_overcommit(a, o.val == 1);
	case OP_AF: return dispatch_queue_attr_make_with_autorelease_frequency(a, (dispatch_autorelease_frequency_t)o.val);
	case OP_QOS: return dispatch_queue_attr_make_with_qos_class(a, QCLS[o.val], -o.rp);
	default: return dispatch_queue_attr_make_initially_inactive(a);
	}
}
static tup_t step_model(tup_t t, op_t o)
{
	switch (o.kind) {
	case OP_OC: t.oc = o.val; break;
	case OP_AF: t.af = o.val; break;
	case OP_QOS: t.q = o.val; t.rp = o.rp; break;
	default: t.in = 1; break;
	}
	return t;
}
/* the applicable constructors of a tuple; variant 1 applies INHERIT explicitly */
static int tuple_ops(tup_t t, int variant, op_t *ops)
{
	int n = 0;
	if (t.oc) ops[n++] = (op_t){ OP_OC, t.oc, 0 };
	if (t.af || variant) ops[n++] = (op_t){ OP_AF, t.af, 0 };
	if (t.q || t.rp) ops[n++] = (op_t){ OP_QOS, t.q, t.rp };
	if (t.in) ops[n++] = (op_t){ OP_IN, 0, 0 };
	return n;
}
static int nvariants(tup_t t) { return t.af == 0 ? 2 : 1; }
static const int FACT[5] = { 1, 1, 2, 6, 24 };
static void nth_perm(int n, int p, int *out)
{
	int pool[4] = { 0, 1, 2, 3 };
	for (int i = 0; i < n; i++) {
		int f = FACT[n - 1 - i], k = p / f; p %= f;
		out[i] = pool[k];
		for (int j = k; j < n - 1 - i; j++) pool[j] = pool[j + 1];
	}
}
#define NSTEPOPS (2 + 3 + 7 * 16 + 1)
static op_t step_op(int k)
{
	if (k < 2) return (op_t){ OP_OC, k + 1, 0 };
	k -= 2; if (k < 3) return (op_t){ OP_AF, k, 0 };
	k -= 3; if (k < 7 * 16) return (op_t){ OP_QOS, k / 16, k % 16 };
	return (op_t){ OP_IN, 0, 0 };
}

/* --------------------------------------------------------------- shared state */
enum { KA_ORDER, KA_LABEL, KA_QOS, KA_RELPRI, NKA };
static const char *KANAME[NKA] = { "order", "label", "qos", "relpri" };
typedef struct {
	uint64_t attr;      /* pointer returned by the library for this tuple (first order) */
	uint64_t base_attr; /* pointer of the zero-constructor plan (NULL / DISPATCH_QUEUE_CONCURRENT) */
	uint8_t done, has_base;
	uint32_t fail_mask, norders, nqueues;
	uint64_t ncons, ncalls;
	int32_t obs_cls, obs_rp;
	char detail[NKA][160];
} ares_t;

#define MAXCRASH 24
typedef struct {
	volatile int64_t cur, sub; /* item being executed (published before the library is entered) */
	int64_t lo, hi;
	int ncrash, gaveup;
	struct { int64_t at, sub; int status; } crash[MAXCRASH];
} wctl_t;

#define BCAP 8192
typedef struct { int64_t id; uint64_t flags, ptr; int32_t cls, rp; char label[64]; } brec_t;
typedef struct { uint64_t ninputs, ncalls, nnonnull; uint32_t nrec, overflow; brec_t rec[BCAP]; } bwork_t;

enum { KS_UNKNOWN, KS_WRONG, KS_INVALID, NKS };
typedef struct { uint64_t nsteps, ninvalid, nfail[NKS]; int64_t min_t[NKS], min_k[NKS]; int min_w[NKS]; char detail[NKS][200]; } swork_t;

typedef struct { int ran, fail_inactive, fail_conc, fail_other; uint64_t ncalls; char detail[200]; int obs_conc, obs_held; } beh_t;

#define MAXW 16
typedef struct {
	ares_t a[NT];
	wctl_t ctl[MAXW];
	bwork_t b[MAXW];
	swork_t s[MAXW];
	beh_t beh[12];
} shared_t;
static shared_t *S;

static double now_s(void) { struct timespec ts; clock_gettime(CLOCK_MONOTONIC, &ts); return ts.tv_sec + ts.tv_nsec * 1e-9; }
static void msleep(int ms) { struct timespec ts = { ms / 1000, (ms % 1000) * 1000000L }; nanosleep(&ts, NULL); }

/* ------------------------------------------------------ (A) phase 1: one tuple */
/* run-independent description of where q lies relative to p (no raw addresses: signatures must be stable) */
static const char *ptr_rel(const void *q, const void *p, char *b, size_t n)
{
	if (!q) snprintf(b, n, "NULL");
	else if (!p) snprintf(b, n, "non-NULL instead of NULL");
	else snprintf(b, n, "%lld bytes from it", (long long)((intptr_t)q - (intptr_t)p));
	return b;
}
static void afail(ares_t *r, int kind, const char *fmt, ...)
{
	if (!(r->fail_mask & (1u << kind))) {
		va_list ap; va_start(ap, fmt); vsnprintf(r->detail[kind], sizeof r->detail[kind], fmt, ap); va_end(ap);
	}
	r->fail_mask |= 1u << kind;
}
static void read_back(dispatch_queue_t q, tup_t t, const char *want_label, const char *when, const char *ord, ares_t *r)
{
	const char *l = dispatch_queue_get_label(q);
	int rp = 12345, want_rp = t.q ? -t.rp : 0;
	unsigned c = dispatch_queue_get_qos_class(q, &rp);
	unsigned c2 = dispatch_queue_get_qos_class(q, NULL);
	r->ncalls += 3;
	if (!l || strcmp(l, want_label))
		afail(r, KA_LABEL, "label \"%s\" expected \"%s\" (%s, order %s)", l ? l : "(null)", want_label, when, ord);
	if (!report_allowed(t.q, c) || c2 != c)
		afail(r, KA_QOS, "queue reports qos class %s (0x%x; with NULL relpri pointer 0x%x), expected %s%s (%s, order %s)",
			clsname(c), c, c2, QNAME[t.q], t.q == Q_MAINT ? " or BACKGROUND" : t.q == Q_UIA ? " or USER_INITIATED" : "", when, ord);
	if (rp != want_rp)
		afail(r, KA_RELPRI, "queue reports relative priority %d, expected %d (%s, order %s)", rp, want_rp, when, ord);
	if (!r->nqueues) { r->obs_cls = (int32_t)c; r->obs_rp = rp; }
}
static void make_and_check(dispatch_queue_attr_t a, tup_t t, int label_kind, const char *ord, ares_t *r)
{
	static const char lit[] = "c18.literal.label";
	char buf[96], keep[96];
	const char *arg, *want;
	if (label_kind == 0) {
		snprintf(buf, sizeof buf, "c18.oc%d.af%d.q%d.p%d.c%d.i%d", t.oc, t.af, t.q, t.rp, t.cc, t.in);
		strcpy(keep, buf); arg = buf; want = keep;
	} else if (label_kind == 1) { arg = lit; want = lit; }
	else { arg = NULL; want = ""; }
	dispatch_queue_t q = dispatch_queue_create(arg, a);
	r->ncalls++;
	if (label_kind == 0) memset(buf, 'X', strlen(buf)); /* the queue must not alias the caller's buffer */
	read_back(q, t, want, t.in ? "before activation" : "active queue", ord, r);
	if (t.in) { /* releasing an inactive queue is a client bug by design: activate first */
		dispatch_activate(q); r->ncalls++;
		read_back(q, t, want, "after activation", ord, r);
	}
	dispatch_release(q); r->ncalls++;
	r->nqueues++;
}
static void run_tuple(int ti, ares_t *r)
{
	tup_t t = tup_of(ti);
	dispatch_queue_attr_t base = t.cc ? DISPATCH_QUEUE_CONCURRENT : DISPATCH_QUEUE_SERIAL;
	int have_ref = 0; dispatch_queue_attr_t ref = NULL;
	char ref_ord[128] = "";
	for (int v = 0; v < nvariants(t); v++) {
		op_t ops[4]; int n = tuple_ops(t, v, ops);
		for (int p = 0; p < FACT[n]; p++) {
			int perm[4]; char ord[128], ob[40]; size_t ol;
			nth_perm(n, p, perm);
			snprintf(ord, sizeof ord, "%s", t.cc ? "CONCURRENT" : "SERIAL");
			dispatch_queue_attr_t a = base;
			for (int i = 0; i < n; i++) {
				a = apply_op(a, ops[perm[i]]); r->ncons++;
				ol = strlen(ord); snprintf(ord + ol, sizeof ord - ol, ">%s", op_str(ops[perm[i]], ob, sizeof ob));
			}
			if (n == 0) { r->base_attr = (uint64_t)(uintptr_t)a; r->has_base = 1; }
			else if (!have_ref) { ref = a; have_ref = 1; snprintf(ref_ord, sizeof ref_ord, "%s", ord); }
			else if (a != ref)
				afail(r, KA_ORDER, "order %s yields a different attr object than order %s (%s)", ord, ref_ord, ptr_rel(a, ref, ob, sizeof ob));
			r->norders++;
			if (v == 0 && p == 0) { make_and_check(a, t, 1, ord, r); make_and_check(a, t, 2, ord, r); }
			make_and_check(a, t, 0, ord, r);
		}
	}
	r->attr = (uint64_t)(uintptr_t)ref;
	r->done = 1;
}

/* ---------------------------------------------------------------- worker pool */
typedef void (*item_fn)(int64_t item, int w);
static void pool_child(int w, int64_t start, item_fn fn, const char *tag)
{
	char path[128];
	snprintf(path, sizeof path, OUT_TMP "/" NAME ".%s.%d.err", tag, w);
	int fd = open(path, O_WRONLY | O_CREAT | O_APPEND, 0644);
	if (fd >= 0) { dup2(fd, 2); close(fd); }
	wctl_t *c = &S->ctl[w];
	for (int64_t i = start; i < c->hi; i++) { c->sub = -1; c->cur = i; fn(i, w); }
	c->cur = c->hi;
	_exit(0);
}
/* runs items [0,n) split into nw contiguous slices; a crashing item is recorded and the
 * slice is resumed behind it */
static int run_pool(int64_t n, int nw, item_fn fn, const char *tag)
{
	pid_t pid[MAXW]; int live = 0, crashes = 0;
	if (nw > MAXW) nw = MAXW;
	if (n < nw) nw = (int)(n ? n : 1);
	memset(S->ctl, 0, sizeof S->ctl);
	for (int w = 0; w < nw; w++) {
		S->ctl[w].lo = n * w / nw; S->ctl[w].hi = n * (w + 1) / nw; S->ctl[w].cur = S->ctl[w].lo;
		char path[128]; snprintf(path, sizeof path, OUT_TMP "/" NAME ".%s.%d.err", tag, w); unlink(path);
		fflush(NULL);
		pid[w] = fork();
		if (pid[w] < 0) { perror("fork"); exit(2); }
		if (pid[w] == 0) pool_child(w, S->ctl[w].lo, fn, tag);
		live++;
	}
	while (live) {
		int st; pid_t p = wait(&st);
		if (p < 0) { if (errno == EINTR) continue; break; }
		int w; for (w = 0; w < nw; w++) if (pid[w] == p) break;
		if (w == nw) continue;
		live--; pid[w] = -1;
		wctl_t *c = &S->ctl[w];
		if (WIFEXITED(st) && WEXITSTATUS(st) == 0 && c->cur >= c->hi) continue;
		crashes++;
		if (c->ncrash < MAXCRASH) {
			c->crash[c->ncrash].at = c->cur; c->crash[c->ncrash].sub = c->sub; c->crash[c->ncrash].status = st; c->ncrash++;
			if (c->cur + 1 < c->hi) {
				fflush(NULL);
				pid[w] = fork();
				if (pid[w] < 0) { perror("fork"); exit(2); }
				if (pid[w] == 0) pool_child(w, c->cur + 1, fn, tag);
				live++;
			}
		} else c->gaveup = 1;
	}
	if (!crashes) for (int w = 0; w < nw; w++) {
		char path[128]; struct stat sb; snprintf(path, sizeof path, OUT_TMP "/" NAME ".%s.%d.err", tag, w);
		if (stat(path, &sb) == 0 && sb.st_size == 0) unlink(path);
	}
	return nw;
}
static const char *status_str(int st, char *b, size_t n)
{
	if (WIFSIGNALED(st)) snprintf(b, n, "killed by signal %d (%s)", WTERMSIG(st), strsignal(WTERMSIG(st)));
	else if (WIFEXITED(st) && WEXITSTATUS(st) == 66) snprintf(b, n, "AddressSanitizer report (exit 66)");
	else snprintf(b, n, "exit status %d", WIFEXITED(st) ? WEXITSTATUS(st) : -1);
	return b;
}

static void a_item(int64_t i, int w) { (void)w; run_tuple((int)i, &S->a[i]); }

/* --------------------------------- (A) phase 2: closure under single constructors */
typedef struct { uint64_t ptr; int ti; } pmap_t;
static pmap_t PMAP[NT + 2]; static int NPMAP;
static int pmap_cmp(const void *a, const void *b) { uint64_t x = ((const pmap_t *)a)->ptr, y = ((const pmap_t *)b)->ptr; return x < y ? -1 : x > y; }
static int pmap_find(uint64_t p)
{
	int lo = 0, hi = NPMAP - 1;
	while (lo <= hi) { int m = (lo + hi) / 2; if (PMAP[m].ptr == p) return PMAP[m].ti; if (PMAP[m].ptr < p) lo = m + 1; else hi = m - 1; }
	return -1;
}
static void sfail(swork_t *s, int kind, int ti, int k, const char *fmt, ...)
{
	int wgt = tup_weight(tup_of(ti));
	s->nfail[kind]++;
	if (s->nfail[kind] == 1 || wgt < s->min_w[kind] || (wgt == s->min_w[kind] && (ti < s->min_t[kind] || (ti == s->min_t[kind] && k < s->min_k[kind])))) {
		s->min_w[kind] = wgt; s->min_t[kind] = ti; s->min_k[kind] = k;
		va_list ap; va_start(ap, fmt); vsnprintf(s->detail[kind], sizeof s->detail[kind], fmt, ap); va_end(ap);
	}
}
/* arguments the header calls invalid for dispatch_queue_attr_make_with_qos_class */
static int invalid_arg(int k, unsigned *cls, int *rp)
{
	static const int badrp[] = { 1, 2, 15, 16, 127, 128, 255, 256, -16, -17, -128, -129, -256, INT_MAX, INT_MIN };
	const int nbad = (int)(sizeof badrp / sizeof badrp[0]);
	if (k < 0x48) { /* every small value that is not a class constant, relpri 0 */
		if (qidx_of_class((unsigned)k) >= 0) return 0;
		*cls = (unsigned)k; *rp = 0; return 1;
	}
	k -= 0x48;
	if (k < 4) { static const unsigned big[4] = { 0x80000000u, 0xffffffffu, 0x100u, 0x2100u }; *cls = big[k]; *rp = 0; return 1; }
	k -= 4;
	if (k < NQ * nbad) { *cls = QCLS[k / nbad]; *rp = badrp[k % nbad]; return 1; }
	return -1;
}
static void s_item(int64_t ti, int w)
{
	swork_t *s = &S->s[w];
	tup_t t = tup_of((int)ti);
	dispatch_queue_attr_t a = (dispatch_queue_attr_t)(uintptr_t)S->a[ti].attr;
	char tb[128], ob[40], eb[128], gb[128];
	for (int k = 0; k < NSTEPOPS; k++) {
		op_t o = step_op(k);
		S->ctl[w].sub = k;
		dispatch_queue_attr_t r = apply_op(a, o);
		s->nsteps++;
		tup_t e = step_model(t, o);
		int got = pmap_find((uint64_t)(uintptr_t)r);
		if (got < 0)
			sfail(s, KS_UNKNOWN, (int)ti, k, "attr(%s) + %s returned an object (%s) which is not a table entry reachable from the base attributes",
				tup_str(t, tb, sizeof tb), op_str(o, ob, sizeof ob), ptr_rel(r, a, gb, sizeof gb));
		else if (canon_index(got) != canon_index(tup_index(e)))
			sfail(s, KS_WRONG, (int)ti, k, "attr(%s) + %s returned the attr of (%s), expected (%s)",
				tup_str(t, tb, sizeof tb), op_str(o, ob, sizeof ob), tup_str(tup_of(got), gb, sizeof gb), tup_str(e, eb, sizeof eb));
	}
	for (int k = 0;; k++) {
		unsigned cls; int rp, v = invalid_arg(k, &cls, &rp);
		if (v < 0) break;
		if (!v) continue;
		S->ctl[w].sub = 100000 + k;
		dispatch_queue_attr_t r = dispatch_queue_attr_make_with_qos_class(a, cls, rp);
		s->ninvalid++;
		/* header: "results in NULL being returned"; the implementation (here and on Darwin)
		 * returns its input unchanged. Either is harmless; anything else is not. */
		if (r != NULL && r != a)
			sfail(s, KS_INVALID, (int)ti, k, "make_with_qos_class(attr(%s), class=0x%x, relpri=%d) returned neither NULL nor its input attr (%s)",
				tup_str(t, tb, sizeof tb), cls, rp, ptr_rel(r, a, gb, sizeof gb));
	}
}

/* ------------------------------------- (A) phase 3: behavioural representatives */
typedef struct { dispatch_semaphore_t gate, done; volatile int b1_started, b1_done, b1_got, b2_started, b2_overlapped; int wait_ms; } bctx_t;
static void beh_b1(void *p)
{
	bctx_t *c = p; __atomic_store_n(&c->b1_started, 1, __ATOMIC_SEQ_CST);
	long r = dispatch_semaphore_wait(c->gate, dispatch_time(DISPATCH_TIME_NOW, (int64_t)c->wait_ms * 1000000LL));
	__atomic_store_n(&c->b1_got, r == 0, __ATOMIC_SEQ_CST);
	__atomic_store_n(&c->b1_done, 1, __ATOMIC_SEQ_CST);
	dispatch_semaphore_signal(c->done);
}
static void beh_b2(void *p)
{
	bctx_t *c = p; __atomic_store_n(&c->b2_started, 1, __ATOMIC_SEQ_CST);
	__atomic_store_n(&c->b2_overlapped, !__atomic_load_n(&c->b1_done, __ATOMIC_SEQ_CST), __ATOMIC_SEQ_CST);
	dispatch_semaphore_signal(c->gate);
	dispatch_semaphore_signal(c->done);
}
static tup_t beh_tuple(int k) { tup_t t = { k % 3, 0, Q_UT, 1, (k / 3) % 2, (k / 6) % 2 }; return t; }
static dispatch_queue_attr_t build_natural(tup_t t)
{
	op_t ops[4]; int n = tuple_ops(t, 0, ops);
	dispatch_queue_attr_t a = t.cc ? DISPATCH_QUEUE_CONCURRENT : DISPATCH_QUEUE_SERIAL;
	for (int i = 0; i < n; i++) a = apply_op(a, ops[i]);
	return a;
}
/* like build_natural but never returns the NULL shorthand for the default serial attr */
static dispatch_queue_attr_t build_explicit(tup_t t)
{
	op_t ops[4]; int n = tuple_ops(t, t.af == 0, ops);
	dispatch_queue_attr_t a = t.cc ? DISPATCH_QUEUE_CONCURRENT : DISPATCH_QUEUE_SERIAL;
	for (int i = 0; i < n; i++) a = apply_op(a, ops[i]);
	return a;
}
static void beh_item(int64_t k, int w)
{
	(void)w;
	beh_t *b = &S->beh[k]; tup_t t = beh_tuple((int)k);
	bctx_t *c = calloc(1, sizeof *c);
	char tb[128];
	dispatch_queue_t q = dispatch_queue_create("c18.behaviour", build_natural(t));
	c->gate = dispatch_semaphore_create(0); c->done = dispatch_semaphore_create(0);
	/* on a serial queue block 2 cannot start before block 1 returned, so block 1 always
	 * runs into its timeout whatever its length; on a concurrent queue block 2 releases it */
	c->wait_ms = t.cc ? 10000 : 150;
	dispatch_async_f(q, c, beh_b1); dispatch_async_f(q, c, beh_b2);
	b->ncalls += 5;
	if (t.in) {
		msleep(20);
		if (__atomic_load_n(&c->b1_started, __ATOMIC_SEQ_CST) || __atomic_load_n(&c->b2_started, __ATOMIC_SEQ_CST)) {
			b->fail_inactive = 1; snprintf(b->detail, sizeof b->detail, "attr(%s): a work item ran before dispatch_activate", tup_str(t, tb, sizeof tb));
		}
		b->obs_held = !c->b1_started && !c->b2_started;
		dispatch_activate(q); b->ncalls++;
	}
	for (int i = 0; i < 2; i++) {
		if (dispatch_semaphore_wait(c->done, dispatch_time(DISPATCH_TIME_NOW, 20000000000LL))) {
			b->fail_other = 1; snprintf(b->detail, sizeof b->detail, "attr(%s): submitted work items did not finish within 20 s%s", tup_str(t, tb, sizeof tb), t.in ? " after dispatch_activate" : "");
			b->ran = 1; return; /* leave everything alive; the worker exits */
		}
		b->ncalls++;
	}
	b->obs_conc = c->b1_got && c->b2_overlapped;
	if (t.cc && !b->obs_conc) { b->fail_conc = 1; snprintf(b->detail, sizeof b->detail, "attr(%s): second work item did not start while the first was in flight (concurrent queue behaved serially)", tup_str(t, tb, sizeof tb)); }
	if (!t.cc && (c->b1_got || c->b2_overlapped)) { b->fail_conc = 1; snprintf(b->detail, sizeof b->detail, "attr(%s): two work items were in flight at once on a serial queue", tup_str(t, tb, sizeof tb)); }
	dispatch_release(q); b->ncalls++;
	b->ran = 1;
}

/* ------------------------------------------------- (B) dispatch_get_global_queue */
static int64_t *XIDS; static size_t NXIDS, NIDS; static int64_t RLO, RHI; /* ids = [RLO,RHI] then XIDS[] */
static int64_t id_at(int64_t i) { return i <= RHI - RLO ? RLO + i : XIDS[i - (RHI - RLO + 1)]; }
static uint64_t FLG[80]; static int NFLG;
static int i64cmp(const void *a, const void *b) { int64_t x = *(const int64_t *)a, y = *(const int64_t *)b; return x < y ? -1 : x > y; }
static int u64cmp(const void *a, const void *b) { uint64_t x = *(const uint64_t *)a, y = *(const uint64_t *)b; return x < y ? -1 : x > y; }
static const int64_t DEFINED_IDS[] = { 2, 0, -2, INT16_MIN, INT8_MIN, 0x05, 0x09, 0x11, 0x15, 0x19, 0x21 };
#define NDEFINED ((int)(sizeof DEFINED_IDS / sizeof DEFINED_IDS[0]))
/* documented class of an identifier (dispatch/queue.h:573-589; DISPATCH_QUEUE_PRIORITY_
 * NON_INTERACTIVE = INT8_MIN -> UTILITY is private/queue_private.h:247-255); 0 = undefined */
static int doc_class(int64_t id)
{
	switch (id) {
	case 2: return Q_UI; case 0: return Q_DEF; case -2: return Q_UT; case INT16_MIN: return Q_BG; case INT8_MIN: return Q_UT;
	case 0x21: return Q_UIA; case 0x19: return Q_UI; case 0x15: return Q_DEF; case 0x11: return Q_UT; case 0x09: return Q_BG;
	case 0x05: return Q_MAINT;
	}
	return 0;
}
/* QOS_CLASS_MAINTENANCE is not in any public list: NULL is acceptable for it */
static int id_optional(int64_t id) { return id == 0x05; }
static int flags_valid(uint64_t f) { return f == 0 || f == 2; } /* 2 = DISPATCH_QUEUE_OVERCOMMIT (private) */
static void build_inputs(int thorough)
{
	size_t n = 0;
	int64_t *IDS = XIDS = malloc(4096 * sizeof *XIDS);
	RLO = thorough ? -(1 << 24) : INT16_MIN; RHI = thorough ? (1 << 24) : INT16_MAX;
	for (int i = 0; i < NQ; i++) for (int d = -1; d <= 1; d++) IDS[n++] = (int64_t)QCLS[i] + d;
	for (int i = 0; i < NDEFINED; i++) {
		int64_t d = DEFINED_IDS[i];
		for (int k = 16; k < 64; k++) IDS[n++] = (int64_t)((uint64_t)d + ((uint64_t)1 << k));
		for (int k = 16; k < 64; k++) IDS[n++] = (int64_t)((uint64_t)d - ((uint64_t)1 << k));
		IDS[n++] = (int64_t)(uint32_t)d; IDS[n++] = (int64_t)(uint16_t)d; IDS[n++] = (int64_t)(uint8_t)d; IDS[n++] = -d;
	}
	const int64_t edges[] = { LONG_MIN, LONG_MAX, INT_MIN, INT_MAX, (int64_t)UINT_MAX, -(int64_t)UINT_MAX, INT16_MIN, INT16_MAX, UINT16_MAX, INT8_MIN, INT8_MAX, UINT8_MAX };
	for (size_t i = 0; i < sizeof edges / sizeof edges[0]; i++) for (int d = -2; d <= 2; d++) {
		if ((edges[i] == LONG_MIN && d < 0) || (edges[i] == LONG_MAX && d > 0)) continue;
		IDS[n++] = edges[i] + d;
	}
	qsort(IDS, n, sizeof *IDS, i64cmp);
	size_t m = 0; for (size_t i = 0; i < n; i++) if ((IDS[i] < RLO || IDS[i] > RHI) && (!m || IDS[m - 1] != IDS[i])) IDS[m++] = IDS[i];
	NXIDS = m; NIDS = (size_t)(RHI - RLO + 1) + m;
	uint64_t f[80]; int nf = 0;
	const uint64_t fx[] = { 0, 1, 2, 3, 4, 8, 0x80000000ull, ~0ull };
	for (size_t i = 0; i < sizeof fx / sizeof fx[0]; i++) f[nf++] = fx[i];
	for (int k = 0; k < 64; k++) f[nf++] = (uint64_t)1 << k;
	qsort(f, (size_t)nf, sizeof f[0], u64cmp);
	NFLG = 0; for (int i = 0; i < nf; i++) if (!NFLG || FLG[NFLG - 1] != f[i]) FLG[NFLG++] = f[i];
}
static int is_sample_input(int64_t id, uint64_t fl) { return (id == 1 && fl == 0) || (id == 0 && fl == 1) || (id == -1 && fl == 2); }
static void ggq_observe(int64_t id, uint64_t fl, brec_t *r, uint64_t *ncalls)
{
	dispatch_queue_t q = dispatch_get_global_queue((intptr_t)id, (uintptr_t)fl);
	(*ncalls)++;
	memset(r, 0, sizeof *r);
	r->id = id; r->flags = fl; r->ptr = (uint64_t)(uintptr_t)q; r->cls = -1; r->rp = 0;
	if (q) {
		int rp = 12345; const char *l;
		r->cls = (int32_t)dispatch_queue_get_qos_class(q, &rp); r->rp = rp;
		l = dispatch_queue_get_label(q);
		snprintf(r->label, sizeof r->label, "%s", l ? l : "(null)");
		*ncalls += 2;
	}
}
static void b_item(int64_t ii, int w)
{
	bwork_t *b = &S->b[w]; int64_t id = id_at(ii); int dc = doc_class(id);
	for (int j = 0; j < NFLG; j++) {
		brec_t r; S->ctl[w].sub = j;
		ggq_observe(id, FLG[j], &r, &b->ncalls);
		b->ninputs++;
		if (r.ptr) b->nnonnull++;
		if (r.ptr || (dc && flags_valid(FLG[j])) || is_sample_input(id, FLG[j])) {
			if (b->nrec < BCAP) b->rec[b->nrec++] = r; else b->overflow++;
		}
	}
}

/* ------------------------------------------------------------ violation groups */
typedef struct { char key[96]; uint64_t count, rank[3]; char sig[420]; char input[420]; } vgroup_t;
static vgroup_t VG[256]; static int NVG;
static void vio(const char *key, uint64_t r0, uint64_t r1, uint64_t r2, const char *input_json, const char *fmt, ...)
{
	int g; for (g = 0; g < NVG; g++) if (!strcmp(VG[g].key, key)) break;
	if (g == NVG) { if (NVG == 256) return; NVG++; memset(&VG[g], 0, sizeof VG[g]); snprintf(VG[g].key, sizeof VG[g].key, "%s", key); VG[g].rank[0] = VG[g].rank[1] = VG[g].rank[2] = UINT64_MAX; }
	vgroup_t *v = &VG[g]; v->count++;
	uint64_t r[3] = { r0, r1, r2 };
	int less = 0; for (int i = 0; i < 3; i++) { if (r[i] < v->rank[i]) { less = 1; break; } if (r[i] > v->rank[i]) break; }
	if (less || v->count == 1) {
		memcpy(v->rank, r, sizeof r);
		va_list ap; va_start(ap, fmt); vsnprintf(v->sig, sizeof v->sig, fmt, ap); va_end(ap);
		snprintf(v->input, sizeof v->input, "%s", input_json);
	}
}
static uint64_t uabs64(int64_t x) { return x < 0 ? (uint64_t)0 - (uint64_t)x : (uint64_t)x; }

static uint64_t g_default_unspec; /* default global queue seen reporting QOS_CLASS_UNSPECIFIED */
/* per-input oracle for (B); used by the run and by --replay. Returns number of failures. */
static int ggq_judge(const brec_t *r, int report, char *what, size_t nwhat)
{
	int dc = doc_class(r->id), fv = flags_valid(r->flags), fails = 0;
	char in[200];
	snprintf(in, sizeof in, "\"kind\": \"ggq\", \"id\": %lld, \"flags\": %llu", (long long)r->id, (unsigned long long)r->flags);
	uint64_t r0 = r->id < 0, r1 = uabs64(r->id), r2 = r->flags;
	if (what) what[0] = 0;
#define GG_FAIL(key, ...) do { fails++; if (report) vio(key, r0, r1, r2, in, __VA_ARGS__); if (what && !what[0]) snprintf(what, nwhat, __VA_ARGS__); } while (0)
	if (!r->ptr) {
		if (dc && fv && !id_optional(r->id)) {
			char key[64]; snprintf(key, sizeof key, "B-null/%s", QNAME[dc]);
			GG_FAIL(key, "get_global_queue(id=%lld,flags=%#llx): returned NULL, documented class %s", (long long)r->id, (unsigned long long)r->flags, QNAME[dc]);
		}
		return fails;
	}
	if (!fv) {
		GG_FAIL("B-flags", "get_global_queue(id=%lld,flags=%#llx): returned a queue, undefined flags (expected NULL)", (long long)r->id, (unsigned long long)r->flags);
		return fails;
	}
	if (!dc) {
		const char *key = (r->id >= INT32_MIN && r->id <= (int64_t)UINT32_MAX) ? "B-undefined-id/32bit" : "B-undefined-id/wide";
		GG_FAIL(key, "get_global_queue(id=%lld,flags=%#llx): returned a queue, undefined identifier (expected NULL)", (long long)r->id, (unsigned long long)r->flags);
		return fails;
	}
	/* which class does the returned queue belong to, by its label */
	int lc = -1, oc = 0;
	for (int i = 1; i < NQ; i++) {
		char e[64]; snprintf(e, sizeof e, "com.apple.root.%s-qos", QLAB[i]);
		if (!strcmp(r->label, e)) { lc = i; oc = 0; }
		snprintf(e, sizeof e, "com.apple.root.%s-qos.overcommit", QLAB[i]);
		if (!strcmp(r->label, e)) { lc = i; oc = 1; }
	}
	if (lc < 0) {
		GG_FAIL("B-label", "get_global_queue(id=%lld,flags=%#llx): returned a queue labelled \"%s\", not a global queue label", (long long)r->id, (unsigned long long)r->flags, r->label);
		return fails;
	}
	if (!report_allowed(dc, QCLS[lc])) {
		char key[64]; snprintf(key, sizeof key, "B-class/%s", QNAME[dc]);
		GG_FAIL(key, "get_global_queue(id=%lld,flags=%#llx): returned %s, documented class %s", (long long)r->id, (unsigned long long)r->flags, r->label, QNAME[dc]);
	}
	if (oc != (r->flags == 2))
		GG_FAIL("B-overcommit-label", "get_global_queue(id=%lld,flags=%#llx): returned %s, %s queue expected", (long long)r->id, (unsigned long long)r->flags, r->label, r->flags == 2 ? "an overcommit" : "a non-overcommit");
	/* The class of the returned global queue is decided by WHICH queue is returned (label
	 * above, pointer relations in ggq_pair_judge). dispatch_queue_get_qos_class on it must
	 * agree with that class, EXCEPT that for the two default-class root queues
	 * QOS_CLASS_UNSPECIFIED is accepted as well: they deliberately carry their class as a
	 * fallback only (src/init.c:344-351, same code upstream/Darwin), so the getter reports
	 * UNSPECIFIED although dispatch/queue.h:1021-1023 says DEFAULT. C18 does not promise what
	 * the getter reports for root queues; the deviation is counted and put in "notes". */
	if (lc == Q_DEF && (unsigned)r->cls == QCLS[Q_UNSPEC]) {
		if (report) g_default_unspec++;
	} else if ((unsigned)r->cls != QCLS[lc]) {
		char key[64]; snprintf(key, sizeof key, "B-get-qos-class/%s", QNAME[lc]);
		GG_FAIL(key, "get_global_queue(id=%lld,flags=%#llx): dispatch_queue_get_qos_class of %s reports %s (0x%x), expected %s",
			(long long)r->id, (unsigned long long)r->flags, r->label, clsname((unsigned)r->cls), (unsigned)r->cls, QNAME[lc]);
	}
	if (r->rp != 0)
		GG_FAIL("B-relpri", "get_global_queue(id=%lld,flags=%#llx): %s reports relative priority %d, expected 0", (long long)r->id, (unsigned long long)r->flags, r->label, r->rp);
	return fails;
#undef GG_FAIL
}
static int supported(int q) { return q >= Q_BG && q <= Q_UI; }
/* pair oracle: returns 0 ok, else failure; key/what filled */
static int ggq_pair_judge(const brec_t *a, const brec_t *b, char *key, size_t nkey, char *what, size_t nwhat)
{
	int da = doc_class(a->id), db = doc_class(b->id);
	if (!a->ptr || !b->ptr || !da || !db || !flags_valid(a->flags) || !flags_valid(b->flags)) return 0;
	if (da == db && a->flags == b->flags && a->ptr != b->ptr) {
		snprintf(key, nkey, "B-same-class-different-queue/%s", QNAME[da]);
		snprintf(what, nwhat, "get_global_queue: id=%lld and id=%lld (flags=%#llx) both denote class %s but return different queues %s and %s",
			(long long)a->id, (long long)b->id, (unsigned long long)a->flags, QNAME[da], a->label, b->label);
		return 1;
	}
	if (da == db && a->flags != b->flags && a->ptr == b->ptr) {
		snprintf(key, nkey, "B-overcommit-same-queue");
		snprintf(what, nwhat, "get_global_queue(id=%lld): flags=%#llx and flags=%#llx return the same queue %s",
			(long long)a->id, (unsigned long long)a->flags, (unsigned long long)b->flags, a->label);
		return 1;
	}
	if (da != db && supported(da) && supported(db) && a->ptr == b->ptr) {
		int lo = da < db ? da : db, hi = da < db ? db : da;
		snprintf(key, nkey, "B-different-classes-same-queue/%s+%s", QNAME[lo], QNAME[hi]);
		snprintf(what, nwhat, "get_global_queue: id=%lld (class %s, flags=%#llx) and id=%lld (class %s, flags=%#llx) return the same queue %s",
			(long long)a->id, QNAME[da], (unsigned long long)a->flags, (long long)b->id, QNAME[db], (unsigned long long)b->flags, a->label);
		return 1;
	}
	return 0;
}
static int brec_cmp(const void *x, const void *y)
{
	const brec_t *a = x, *b = y;
	uint64_t ua = uabs64(a->id), ub = uabs64(b->id);
	if (ua != ub) return ua < ub ? -1 : 1;
	if (a->id != b->id) return a->id > b->id ? -1 : 1; /* positive first */
	return a->flags < b->flags ? -1 : a->flags > b->flags;
}

/* ------------------------------------------------------------------- replay */
static char *slurp(const char *path)
{
	FILE *f = fopen(path, "r"); if (!f) return NULL;
	char *b = malloc(1 << 16); size_t n = fread(b, 1, (1 << 16) - 1, f); b[n] = 0; fclose(f); return b;
}
static const char *jfind(const char *buf, const char *key)
{
	char pat[64]; snprintf(pat, sizeof pat, "\"%s\":", key);
	const char *p = strstr(buf, pat); if (!p) return NULL;
	p += strlen(pat); while (*p == ' ') p++; return p;
}
static int jint(const char *buf, const char *key, long long *out) { const char *p = jfind(buf, key); if (!p) return 0; *out = strtoll(p, NULL, 10); return 1; }
static int juint(const char *buf, const char *key, unsigned long long *out) { const char *p = jfind(buf, key); if (!p) return 0; *out = strtoull(p, NULL, 10); return 1; }
static int jstr(const char *buf, const char *key, char *out, size_t n)
{
	const char *p = jfind(buf, key); if (!p || *p != '"') return 0; p++;
	size_t i = 0; while (*p && *p != '"' && i + 1 < n) out[i++] = *p++; out[i] = 0; return 1;
}
static int jtuple(const char *buf, const char *pfx, tup_t *t)
{
	char k[32]; long long v[6]; const char *nm[6] = { "oc", "af", "qos", "relpri", "concurrent", "inactive" };
	for (int i = 0; i < 6; i++) { snprintf(k, sizeof k, "%s%s", pfx, nm[i]); if (!jint(buf, k, &v[i])) return 0; }
	t->oc = (int)v[0]; t->af = (int)v[1]; t->q = (int)v[2]; t->rp = (int)-v[3]; t->cc = (int)v[4]; t->in = (int)v[5];
	if (t->oc < 0 || t->oc > 2 || t->af < 0 || t->af > 2 || t->q < 0 || t->q >= NQ || t->rp < 0 || t->rp > 15 || t->cc < 0 || t->cc > 1 || t->in < 0 || t->in > 1) return 0;
	return 1;
}
static int replay_child(const char *buf)
{
	char kind[32] = "", tb[128], tb2[128], ob[40];
	if (!jstr(buf, "kind", kind, sizeof kind)) { fprintf(stderr, "replay: no kind\n"); return 2; }
	if (!strcmp(kind, "attr")) {
		tup_t t; if (!jtuple(buf, "", &t)) return 2;
		ares_t *r = &S->a[tup_index(t)]; memset(r, 0, sizeof *r);
		run_tuple(tup_index(t), r);
		printf("attr(%s): %u constructor orders, %u queues created, attr=%#llx, first queue reports qos=%s relpri=%d\n",
			tup_str(t, tb, sizeof tb), r->norders, r->nqueues, (unsigned long long)r->attr, clsname((unsigned)r->obs_cls), r->obs_rp);
		for (int k = 0; k < NKA; k++) if (r->fail_mask & (1u << k)) printf("  FAIL[%s]: %s\n", KANAME[k], r->detail[k]);
		if (!r->fail_mask) printf("  ok\n");
		return r->fail_mask ? 1 : 0;
	}
	if (!strcmp(kind, "attr_alias")) {
		tup_t a, b; if (!jtuple(buf, "a_", &a) || !jtuple(buf, "b_", &b)) return 2;
		dispatch_queue_attr_t pa = build_explicit(a), pb = build_explicit(b);
		printf("attr(%s) = %p\nattr(%s) = %p\n", tup_str(a, tb, sizeof tb), (void *)pa, tup_str(b, tb2, sizeof tb2), (void *)pb);
		if (pa == pb) { printf("  FAIL: two attributes that denote different queues are the same object\n"); return 1; }
		printf("  ok: distinct\n"); return 0;
	}
	if (!strcmp(kind, "attr_step")) {
		tup_t t; long long k; if (!jtuple(buf, "", &t) || !jint(buf, "op", &k) || k < 0 || k >= NSTEPOPS) return 2;
		op_t o = step_op((int)k); tup_t e = step_model(t, o), ec = tup_of(canon_index(tup_index(e)));
		dispatch_queue_attr_t a = build_explicit(t), r = apply_op(a, o), x = build_explicit(e), xc = build_explicit(ec);
		printf("attr(%s)=%p + %s -> %p; attr(%s)=%p\n", tup_str(t, tb, sizeof tb), (void *)a, op_str(o, ob, sizeof ob), (void *)r, tup_str(e, tb2, sizeof tb2), (void *)x);
		if (r != x && r != xc) { printf("  FAIL: constructor applied to a table entry does not yield the entry of the updated fields\n"); return 1; }
		printf("  ok\n"); return 0;
	}
	if (!strcmp(kind, "attr_invalid")) {
		tup_t t; long long rp; unsigned long long cls; if (!jtuple(buf, "", &t) || !juint(buf, "class", &cls) || !jint(buf, "arg_relpri", &rp)) return 2;
		dispatch_queue_attr_t a = build_explicit(t);
		dispatch_queue_attr_t r = dispatch_queue_attr_make_with_qos_class(a, (unsigned)cls, (int)rp);
		printf("make_with_qos_class(attr(%s)=%p, class=0x%llx, relpri=%lld) -> %p\n", tup_str(t, tb, sizeof tb), (void *)a, cls, rp, (void *)r);
		if (r != NULL && r != a) { printf("  FAIL: neither NULL nor the input attribute\n"); return 1; }
		printf("  ok\n"); return 0;
	}
	if (!strcmp(kind, "behaviour")) {
		long long k; if (!jint(buf, "rep", &k) || k < 0 || k >= 12) return 2;
		beh_item(k, 0); beh_t *b = &S->beh[k];
		printf("attr(%s): held-until-activate=%d two-in-flight=%d\n", tup_str(beh_tuple((int)k), tb, sizeof tb), b->obs_held, b->obs_conc);
		if (b->fail_inactive || b->fail_conc || b->fail_other) { printf("  FAIL: %s\n", b->detail); return 1; }
		printf("  ok\n"); return 0;
	}
	if (!strcmp(kind, "ggq")) {
		long long id; unsigned long long fl; if (!jint(buf, "id", &id) || !juint(buf, "flags", &fl)) return 2;
		brec_t r; uint64_t nc = 0; char what[420];
		ggq_observe(id, fl, &r, &nc);
		printf("dispatch_get_global_queue(%lld, %#llx) -> %#llx %s qos=%s relpri=%d\n", id, fl, (unsigned long long)r.ptr, r.ptr ? r.label : "NULL", r.ptr ? clsname((unsigned)r.cls) : "-", r.rp);
		if (ggq_judge(&r, 0, what, sizeof what)) { printf("  FAIL: %s\n", what); return 1; }
		printf("  ok\n"); return 0;
	}
	if (!strcmp(kind, "ggq_pair")) {
		long long ia, ib; unsigned long long fa, fb;
		if (!jint(buf, "a_id", &ia) || !juint(buf, "a_flags", &fa) || !jint(buf, "b_id", &ib) || !juint(buf, "b_flags", &fb)) return 2;
		brec_t a, b; uint64_t nc = 0; char key[128], what[420];
		ggq_observe(ia, fa, &a, &nc); ggq_observe(ib, fb, &b, &nc);
		printf("dispatch_get_global_queue(%lld, %#llx) -> %#llx %s\ndispatch_get_global_queue(%lld, %#llx) -> %#llx %s\n",
			ia, fa, (unsigned long long)a.ptr, a.ptr ? a.label : "NULL", ib, fb, (unsigned long long)b.ptr, b.ptr ? b.label : "NULL");
		if (ggq_pair_judge(&a, &b, key, sizeof key, what, sizeof what)) { printf("  FAIL: %s\n", what); return 1; }
		printf("  ok\n"); return 0;
	}
	fprintf(stderr, "replay: unknown kind %s\n", kind);
	return 2;
}
static int do_replay(const char *path)
{
	char *buf = slurp(path);
	if (!buf) { fprintf(stderr, "cannot read %s\n", path); return 2; }
	const char *in = strstr(buf, "\"input\""); if (in) buf = (char *)in;
	fflush(NULL);
	pid_t p = fork();
	if (p == 0) { int rc = replay_child(buf); fflush(NULL); _exit(rc); }
	int st; waitpid(p, &st, 0);
	if (WIFEXITED(st) && WEXITSTATUS(st) <= 2) return WEXITSTATUS(st);
	char sb[96]; printf("  FAIL: the library did not survive this input: %s\n", status_str(st, sb, sizeof sb));
	return 1;
}

/* --------------------------------------------------------------------- main */
static void jesc(FILE *f, const char *s)
{
	fputc('"', f);
	for (; *s; s++) { if (*s == '"' || *s == '\\') { fputc('\\', f); fputc(*s, f); } else if ((unsigned char)*s < 0x20) fprintf(f, "\\u%04x", *s); else fputc(*s, f); }
	fputc('"', f);
}
static char SELF[512];

int main(int argc, char **argv)
{
	const char *tier = "quick", *json = NULL, *replay = NULL;
	for (int i = 1; i < argc; i++) {
		if (!strcmp(argv[i], "--tier") && i + 1 < argc) tier = argv[++i];
		else if (!strcmp(argv[i], "--json") && i + 1 < argc) json = argv[++i];
		else if (!strcmp(argv[i], "--replay") && i + 1 < argc) replay = argv[++i];
		else { fprintf(stderr, "usage: %s --tier quick|thorough --json <file> | --replay <file>\n", argv[0]); return 2; }
	}
	int thorough = !strcmp(tier, "thorough");
	if (!thorough && strcmp(tier, "quick")) { fprintf(stderr, "unknown tier %s\n", tier); return 2; }
	ssize_t sl = readlink("/proc/self/exe", SELF, sizeof SELF - 1);
	if (sl <= 0) snprintf(SELF, sizeof SELF, "/verif/build/seqx/" NAME); else SELF[sl] = 0;
	S = mmap(NULL, sizeof *S, PROT_READ | PROT_WRITE, MAP_SHARED | MAP_ANONYMOUS, -1, 0);
	if (S == MAP_FAILED) { perror("mmap"); return 2; }
	mkdir("/verif/out", 0755); mkdir(OUT_REPLAY, 0755); mkdir(OUT_TMP, 0755);
	if (replay) return do_replay(replay);
	if (!json) { fprintf(stderr, "--json <file> required\n"); return 2; }

	double t0 = now_s();
	int exhaustive = 1, NW = 16;
	char sb[96], tb[128], tb2[128], in[420], key[128], what[420];
	uint64_t transitions = 0, evaluations = 0;

	/* ---- (A) phase 1 */
	int nw = run_pool(NT, NW, a_item, "attr");
	for (int w = 0; w < nw; w++) {
		wctl_t *c = &S->ctl[w];
		if (c->gaveup) exhaustive = 0;
		for (int k = 0; k < c->ncrash; k++) {
			tup_t t = tup_of((int)c->crash[k].at);
			tup_json(t, "", tb2, sizeof tb2); snprintf(in, sizeof in, "\"kind\": \"attr\", %s", tb2);
			vio("A-crash", (uint64_t)tup_weight(t), (uint64_t)c->crash[k].at, 0, in, "attr(%s): library did not survive building the attribute / creating the queue: %s",
				tup_str(t, tb, sizeof tb), status_str(c->crash[k].status, sb, sizeof sb));
		}
	}
	uint64_t n_orders = 0, n_queues = 0, n_cons = 0, n_acalls = 0; int n_done = 0;
	for (int i = 0; i < NT; i++) {
		ares_t *r = &S->a[i]; tup_t t = tup_of(i);
		n_orders += r->norders; n_queues += r->nqueues; n_cons += r->ncons; n_acalls += r->ncalls; n_done += r->done;
		for (int k = 0; k < NKA; k++) if (r->fail_mask & (1u << k)) {
			if (k == KA_QOS) snprintf(key, sizeof key, "A-qos/%s", QNAME[t.q]); else snprintf(key, sizeof key, "A-%s", KANAME[k]);
			tup_json(t, "", tb2, sizeof tb2); snprintf(in, sizeof in, "\"kind\": \"attr\", %s", tb2);
			vio(key, (uint64_t)tup_weight(t), (uint64_t)i, 0, in, "attr(%s): %s", tup_str(t, tb, sizeof tb), r->detail[k]);
		}
	}
	if (n_done != NT) exhaustive = 0;
	/* pointer map, injectivity, density */
	NPMAP = 0;
	for (int i = 0; i < NT; i++) if (S->a[i].done) {
		PMAP[NPMAP].ptr = S->a[i].attr; PMAP[NPMAP++].ti = i;
	}
	qsort(PMAP, (size_t)NPMAP, sizeof PMAP[0], pmap_cmp);
	int distinct_attr = 0, alias = 0; uint64_t minp = 0, maxp = 0, stride = 0;
	for (int i = 0; i < NPMAP; i++) {
		if (i && PMAP[i].ptr == PMAP[i - 1].ptr) {
			/* find first of the run */
			int j = i - 1; while (j > 0 && PMAP[j - 1].ptr == PMAP[i].ptr) j--;
			int ta = PMAP[j].ti, tbb = PMAP[i].ti;
			if (canon_index(ta) != canon_index(tbb)) {
				alias++;
				tup_t a = tup_of(ta < tbb ? ta : tbb), b = tup_of(ta < tbb ? tbb : ta);
				char ja[200], jb[200]; tup_json(a, "a_", ja, sizeof ja); tup_json(b, "b_", jb, sizeof jb);
				snprintf(in, sizeof in, "\"kind\": \"attr_alias\", %s, %s", ja, jb);
				vio("A-alias", (uint64_t)(tup_weight(a) + tup_weight(b)), (uint64_t)tup_index(a), (uint64_t)tup_index(b), in,
					"attr(%s) and attr(%s): different attributes are the same object", tup_str(a, tb, sizeof tb), tup_str(b, tb2, sizeof tb2));
			}
			continue;
		}
		distinct_attr++;
	}
	for (int i = 0; i < NT; i++) if (S->a[i].done && S->a[i].has_base && S->a[i].base_attr) {
		int got = pmap_find(S->a[i].base_attr);
		if (got >= 0 && canon_index(got) != canon_index(i)) {
			tup_t a = tup_of(i), b = tup_of(got); char ja[200], jb[200]; tup_json(a, "a_", ja, sizeof ja); tup_json(b, "b_", jb, sizeof jb);
			snprintf(in, sizeof in, "\"kind\": \"attr_alias\", %s, %s", ja, jb);
			vio("A-alias", (uint64_t)(tup_weight(a) + tup_weight(b)), (uint64_t)i, (uint64_t)got, in,
				"attr(%s) and attr(%s): different attributes are the same object", tup_str(a, tb, sizeof tb), tup_str(b, tb2, sizeof tb2));
		}
	}
	if (NPMAP) {
		minp = PMAP[0].ptr; maxp = PMAP[NPMAP - 1].ptr;
		for (int i = 1; i < NPMAP; i++) { uint64_t d = PMAP[i].ptr - PMAP[i - 1].ptr; if (d && (!stride || d < stride)) stride = d; }
	}
	uint64_t span_slots = stride ? (maxp - minp) / stride + 1 : 0;
	evaluations += n_orders; transitions += n_cons + n_acalls;

	/* ---- (A) phase 2: closure + invalid arguments (needs an unambiguous pointer map) */
	uint64_t n_steps = 0, n_invalid = 0;
	if (!alias && n_done == NT) {
		memset(S->s, 0, sizeof S->s);
		nw = run_pool(NT, NW, s_item, "step");
		for (int w = 0; w < nw; w++) {
			wctl_t *c = &S->ctl[w]; swork_t *s = &S->s[w];
			if (c->gaveup || c->ncrash) exhaustive = 0;
			for (int k = 0; k < c->ncrash; k++) {
				tup_t t = tup_of((int)c->crash[k].at); char ob[40];
				tup_json(t, "", tb2, sizeof tb2);
				if (c->crash[k].sub >= 0 && c->crash[k].sub < NSTEPOPS) snprintf(in, sizeof in, "\"kind\": \"attr_step\", %s, \"op\": %lld", tb2, (long long)c->crash[k].sub);
				else snprintf(in, sizeof in, "\"kind\": \"attr\", %s", tb2);
				vio("A-step-crash", (uint64_t)tup_weight(t), (uint64_t)c->crash[k].at, (uint64_t)c->crash[k].sub, in, "attr(%s) + constructor #%lld (%s): %s", tup_str(t, tb, sizeof tb),
					(long long)c->crash[k].sub, c->crash[k].sub >= 0 && c->crash[k].sub < NSTEPOPS ? op_str(step_op((int)c->crash[k].sub), ob, sizeof ob) : "invalid-argument probe", status_str(c->crash[k].status, sb, sizeof sb));
			}
			n_steps += s->nsteps; n_invalid += s->ninvalid;
			for (int k = 0; k < NKS; k++) if (s->nfail[k]) {
				tup_t t = tup_of((int)s->min_t[k]); tup_json(t, "", tb2, sizeof tb2);
				if (k == KS_INVALID) {
					unsigned cls = 0; int rp = 0; invalid_arg((int)s->min_k[k], &cls, &rp);
					snprintf(in, sizeof in, "\"kind\": \"attr_invalid\", %s, \"class\": %u, \"arg_relpri\": %d", tb2, cls, rp);
				} else snprintf(in, sizeof in, "\"kind\": \"attr_step\", %s, \"op\": %lld", tb2, (long long)s->min_k[k]);
				const char *kk = k == KS_UNKNOWN ? "A-step-unknown-attr" : k == KS_WRONG ? "A-step-wrong-attr" : "A-invalid-arg";
				vio(kk, (uint64_t)s->min_w[k], (uint64_t)s->min_t[k], (uint64_t)s->min_k[k], in, "%s", s->detail[k]);
				for (int g = 0; g < NVG; g++) if (!strcmp(VG[g].key, kk)) VG[g].count += s->nfail[k] - 1;
			}
		}
		evaluations += n_steps + n_invalid; transitions += n_steps + n_invalid;
	} else exhaustive = 0;

	/* ---- (A) phase 3: behaviour of 12 representatives */
	run_pool(12, 12, beh_item, "beh");
	uint64_t n_beh = 0;
	for (int k = 0; k < 12; k++) {
		beh_t *b = &S->beh[k]; wctl_t *c = &S->ctl[k];
		snprintf(in, sizeof in, "\"kind\": \"behaviour\", \"rep\": %d", k);
		if (c->ncrash) { vio("A-behaviour-crash", 0, (uint64_t)k, 0, in, "attr(%s): behavioural check: %s", tup_str(beh_tuple(k), tb, sizeof tb), status_str(c->crash[0].status, sb, sizeof sb)); exhaustive = 0; continue; }
		if (b->fail_inactive) vio("A-inactive", 0, (uint64_t)k, 0, in, "%s", b->detail);
		if (b->fail_conc) vio("A-concurrency", 0, (uint64_t)k, 0, in, "%s", b->detail);
		if (b->fail_other) vio("A-behaviour-stuck", 0, (uint64_t)k, 0, in, "%s", b->detail);
		n_beh += b->ran; transitions += b->ncalls;
	}
	evaluations += n_beh;
	double tA = now_s();

	/* ---- (B) */
	build_inputs(thorough);
	memset(S->b, 0, sizeof S->b);
	nw = run_pool((int64_t)NIDS, NW, b_item, "ggq");
	uint64_t b_inputs = 0, b_calls = 0, b_nonnull = 0; size_t nrec = 0;
	brec_t *rec = malloc(sizeof *rec * BCAP * MAXW);
	for (int w = 0; w < nw; w++) {
		wctl_t *c = &S->ctl[w]; bwork_t *b = &S->b[w];
		if (c->gaveup || c->ncrash) exhaustive = 0;
		if (b->overflow) exhaustive = 0;
		for (int k = 0; k < c->ncrash; k++) {
			int64_t id = id_at(c->crash[k].at); uint64_t fl = c->crash[k].sub >= 0 ? FLG[c->crash[k].sub] : 0;
			snprintf(in, sizeof in, "\"kind\": \"ggq\", \"id\": %lld, \"flags\": %llu", (long long)id, (unsigned long long)fl);
			vio("B-crash", id < 0, uabs64(id), fl, in, "get_global_queue(id=%lld,flags=%#llx): %s", (long long)id, (unsigned long long)fl, status_str(c->crash[k].status, sb, sizeof sb));
		}
		b_inputs += b->ninputs; b_calls += b->ncalls; b_nonnull += b->nnonnull;
		memcpy(rec + nrec, b->rec, sizeof *rec * b->nrec); nrec += b->nrec;
	}
	if (b_inputs != (uint64_t)NIDS * (uint64_t)NFLG) exhaustive = 0;
	qsort(rec, nrec, sizeof *rec, brec_cmp);
	for (size_t i = 0; i < nrec; i++) ggq_judge(&rec[i], 1, NULL, 0);
	/* pair relations over the defined identifiers with valid flags */
	brec_t *def[64]; int ndef = 0;
	for (size_t i = 0; i < nrec; i++) if (doc_class(rec[i].id) && flags_valid(rec[i].flags) && rec[i].ptr && ndef < 64) def[ndef++] = &rec[i];
	uint64_t n_pairs = 0;
	for (int i = 0; i < ndef; i++) for (int j = i + 1; j < ndef; j++) {
		n_pairs++;
		if (ggq_pair_judge(def[i], def[j], key, sizeof key, what, sizeof what)) {
			snprintf(in, sizeof in, "\"kind\": \"ggq_pair\", \"a_id\": %lld, \"a_flags\": %llu, \"b_id\": %lld, \"b_flags\": %llu",
				(long long)def[i]->id, (unsigned long long)def[i]->flags, (long long)def[j]->id, (unsigned long long)def[j]->flags);
			vio(key, uabs64(def[i]->id) + uabs64(def[j]->id), def[i]->flags + def[j]->flags, (uint64_t)(i * 64 + j), in, "%s", what);
		}
	}
	uint64_t gq[64]; int ngq = 0;
	for (size_t i = 0; i < nrec; i++) if (rec[i].ptr) { int k; for (k = 0; k < ngq; k++) if (gq[k] == rec[i].ptr) break; if (k == ngq && ngq < 64) gq[ngq++] = rec[i].ptr; }
	evaluations += b_inputs + n_pairs; transitions += b_calls;
	double t1 = now_s();

	/* ---- output */
	int nviol = NVG > 20 ? 20 : NVG;
	for (int g = 0; g < nviol; g++) {
		char path[256]; snprintf(path, sizeof path, OUT_REPLAY "/" PROP "-" NAME "-%d.json", g);
		FILE *rf = fopen(path, "w");
		if (rf) {
			fprintf(rf, "{\"engine\": \"seqx\", \"replay_cmd\": [\"%s\", \"--replay\", \"{replay}\"], \"class\": ", SELF);
			jesc(rf, VG[g].key); fprintf(rf, ", \"inputs_in_class\": %llu, \"signature\": ", (unsigned long long)VG[g].count); jesc(rf, VG[g].sig);
			fprintf(rf, ", \"input\": {%s}}\n", VG[g].input); fclose(rf);
		}
	}
	FILE *f = fopen(json, "w");
	if (!f) { perror(json); return 2; }
	fprintf(f, "{\"name\": \"" NAME "\", \"property\": \"" PROP "\", \"tier\": \"%s\",\n", tier);
	fprintf(f, " \"bound\": \"(A) all %d attribute tuples (3 overcommit x 3 autorelease x 7 qos x 16 relpri x 2 concurrency x 2 inactive; "
		"table measured: %d distinct attr objects, %llu slots of %llu bytes, dense=%s) x every order of the applicable constructors = %llu (tuple,order) cases, "
		"a queue created and read back for each (%llu queues); closure: every table entry x each of %d single constructor applications = %llu steps; "
		"%llu invalid-argument calls; behaviour (held until activate / two items in flight) on 12 representatives, one per (concurrency,inactive,overcommit), not on all tuples. "
		"(B) %zu identifiers (all of %s, QOS constants +-1, defined identifiers with every bit 16..63 added/subtracted and their 8/16/32-bit images, LONG/INT/UINT edges) x %d flag values "
		"(0,1,2,3,4,8,0x80000000,~0, every single bit) = %llu calls; all %llu pairs of defined identifiers for the same-queue/different-queue relations\",\n",
		NT, distinct_attr, (unsigned long long)span_slots, (unsigned long long)stride, (span_slots == (uint64_t)distinct_attr && distinct_attr == NT) ? "yes" : "no",
		(unsigned long long)n_orders, (unsigned long long)n_queues, NSTEPOPS, (unsigned long long)n_steps, (unsigned long long)n_invalid,
		NIDS, thorough ? "-16777216..16777216" : "-32768..32767", NFLG, (unsigned long long)b_inputs, (unsigned long long)n_pairs);
	fprintf(f, " \"states\": %llu, \"transitions\": %llu, \"evaluations\": %llu, \"distinct_outcomes\": %d, \"traces_validated_against_impl\": %llu,\n",
		(unsigned long long)(NT + b_inputs), (unsigned long long)transitions, (unsigned long long)evaluations, distinct_attr + ngq, (unsigned long long)evaluations);
	fprintf(f, " \"exhaustive\": %s,\n", exhaustive ? "true" : "false");
	fprintf(f, " \"detail\": {\"attr_tuples\": %d, \"attr_tuple_orders\": %llu, \"queues_created\": %llu, \"constructor_applications\": %llu, \"closure_steps\": %llu, \"invalid_arg_calls\": %llu, "
		"\"behaviour_representatives\": %llu, \"distinct_attr_objects\": %d, \"attr_table_slots_spanned\": %llu, \"attr_stride_bytes\": %llu, "
		"\"ggq_identifiers\": %zu, \"ggq_flag_values\": %d, \"ggq_inputs\": %llu, \"ggq_nonnull_returns\": %llu, \"ggq_distinct_queues\": %d, \"ggq_pairs\": %llu, \"wall_attr_s\": %.2f, \"wall_ggq_s\": %.2f},\n",
		NT, (unsigned long long)n_orders, (unsigned long long)n_queues, (unsigned long long)n_cons, (unsigned long long)n_steps, (unsigned long long)n_invalid,
		(unsigned long long)n_beh, distinct_attr, (unsigned long long)span_slots, (unsigned long long)stride, NIDS, NFLG, (unsigned long long)b_inputs, (unsigned long long)b_nonnull, ngq, (unsigned long long)n_pairs, tA - t0, t1 - tA);
	/* samples */
	fprintf(f, " \"samples\": [\n");
	{
		const int st[2] = { tup_index((tup_t){ 0, 0, Q_UT, 3, 1, 0 }), tup_index((tup_t){ 2, 1, Q_UIA, 15, 0, 1 }) };
		for (int i = 0; i < 2; i++) {
			ares_t *r = &S->a[st[i]];
			fprintf(f, "  {\"kind\": \"attr\", \"tuple\": \"%s\", \"orders\": %u, \"queues\": %u, \"attr_slot\": %lld, \"reported_qos\": \"%s\", \"reported_relpri\": %d, \"ok\": %s},\n",
				tup_str(tup_of(st[i]), tb, sizeof tb), r->norders, r->nqueues, stride ? (long long)((r->attr - minp) / stride) : -1LL, clsname((unsigned)r->obs_cls), r->obs_rp, r->fail_mask ? "false" : "true");
		}
		beh_t *b = &S->beh[10];
		fprintf(f, "  {\"kind\": \"behaviour\", \"tuple\": \"%s\", \"held_until_activate\": %d, \"two_in_flight\": %d}", tup_str(beh_tuple(10), tb, sizeof tb), b->obs_held, b->obs_conc);
		for (size_t i = 0; i < nrec; i++) {
			int64_t id = rec[i].id; uint64_t fl = rec[i].flags;
			if (!((id == 2 && fl == 0) || (id == 0x15 && fl == 2) || (id == 1 && fl == 0) || (id == 0 && fl == 1))) continue;
			fprintf(f, ",\n  {\"kind\": \"ggq\", \"id\": %lld, \"flags\": %llu, \"returned\": \"%s\", \"reported_qos\": \"%s\"}", (long long)id, (unsigned long long)fl,
				rec[i].ptr ? rec[i].label : "NULL", rec[i].ptr ? clsname((unsigned)rec[i].cls) : "-");
		}
		fprintf(f, "\n ],\n");
	}
	fprintf(f, " \"notes\": [");
	if (g_default_unspec) fprintf(f, "\"dispatch_queue_get_qos_class(default global queue) reports UNSPECIFIED (%llu of the returns checked); header doc (dispatch/queue.h:1021) says DEFAULT; accepted, not part of C18\"", (unsigned long long)g_default_unspec);
	fprintf(f, "],\n");
	fprintf(f, " \"violation_classes\": %d,\n \"violations_list\": [", NVG);
	for (int g = 0; g < nviol; g++) {
		fprintf(f, "%s\n  {\"signature\": ", g ? "," : ""); jesc(f, VG[g].sig);
		fprintf(f, ", \"class\": "); jesc(f, VG[g].key);
		fprintf(f, ", \"inputs_in_class\": %llu, \"replay\": \"" OUT_REPLAY "/" PROP "-" NAME "-%d.json\"}", (unsigned long long)VG[g].count, g);
	}
	fprintf(f, "%s],\n \"wall_s\": %.2f}\n", nviol ? "\n " : "", now_s() - t0);
	fclose(f);
	printf(NAME " tier=%s: %d attr tuples, %llu (tuple,order) cases, %llu closure steps, %zu x %d global-queue inputs, %d violation class(es), exhaustive=%s, %.1f s\n",
		tier, NT, (unsigned long long)n_orders, (unsigned long long)n_steps, NIDS, NFLG, NVG, exhaustive ? "true" : "false", now_s() - t0);
	for (int g = 0; g < nviol; g++) printf("VIOLATION %s [x%llu]\n", VG[g].sig, (unsigned long long)VG[g].count);
	return NVG ? 1 : 0;
}
