/*
 * seqx driver for property C12: "dispatch_time arithmetic is monotone,
 * clock-preserving and saturating".
 *
 * What is enumerated (completely, never sampled):
 *   P1  dispatch_time(base, delta)       for every base in lattice B x every delta in lattice D   (real clocks)
 *   P2  dispatch_walltime(&ts, delta)    for every timespec in lattice T (+ NULL) x every delta in D (real clocks)
 *   P3  the NOW-relative part again under 4 *virtual* clock readings (this file
 *       defines clock_gettime(); in virtual mode the three clocks libdispatch reads
 *       on Linux -- CLOCK_MONOTONIC (uptime), CLOCK_BOOTTIME (monotonic),
 *       CLOCK_REALTIME (wall) -- return distinct chosen constants, so NOW-relative
 *       results are checked exactly, also right at the 2^62 encoding limit)
 *   P4  dispatch_semaphore_wait(sema(0), t) for ~200 distinct results t that the
 *       model says have already elapsed: must return non-zero within 0.5 s
 *       (each in a forked child with an interval-timer watchdog).
 *
 * Reference model (see evaluate()): decode base per the documented encoding,
 * add in __int128, and accept exactly what the property allows:
 *   - FOREVER base            -> FOREVER
 *   - result FOREVER          iff exact sum >= 2^62-1 (DISPATCH_TIME_MAX_VALUE, the
 *                             library's own bound; values >= it "cannot be time values")
 *   - otherwise result must be on the base's clock (wall for dispatch_walltime) and
 *       decode to exactly the sum, or
 *       be an already elapsed time (<= now on that clock, or the clock's NOW symbol)
 *       when the sum precedes the representable past (sum < 1 for uptime/monotonic,
 *       sum < 3 for wall, whose encodings of 1 and 2 are FOREVER and WALLTIME_NOW).
 *   - a base whose own value is outside the encodable range (uptime values with
 *     top bits 01, wall value 2^62) may be treated as FOREVER (the library's
 *     decode range check) or shifted exactly.
 *   NOW-relative bases on real clocks are compared with a [before, after] bracket
 *   of clock readings taken by the driver around the call.
 * Monotonicity is checked directly per base by walking D in ascending order;
 * results are compared modulo "all already-elapsed times are equivalent".
 */
#define _GNU_SOURCE
#include <dispatch/dispatch.h>
#include <dispatch/private.h>
#include <stdio.h>
#include <stdlib.h>
#include <string.h>
#include <stdint.h>
#include <inttypes.h>
#include <time.h>
#include <unistd.h>
#include <dlfcn.h>
#include <signal.h>
#include <errno.h>
#include <limits.h>
#include <sys/mman.h>
#include <sys/wait.h>
#include <sys/time.h>
#include <sys/stat.h>

typedef __int128 i128;

#define NAME "time_c12"
#define PROP "C12"
#define MAXV ((uint64_t)((1ull << 62) - 1)) /* DISPATCH_TIME_MAX_VALUE */
#define NSEC 1000000000ll

const char *__asan_default_options(void) { return "detect_leaks=0:exitcode=66"; }

/* ------------------------------------------------------------------ clocks */

enum { CK_UP = 0, CK_MONO = 1, CK_WALL = 2, CK_FOREVER = 3 };
static const char *CKNAME[] = { "UPTIME", "MONOTONIC", "WALL", "FOREVER" };

static volatile int g_virt;          /* 1: clock_gettime returns g_v[] */
static volatile uint64_t g_v[3];     /* virtual readings: uptime, monotonic, wall */

typedef int (*cg_fn)(clockid_t, struct timespec *);
static cg_fn real_cg;

/* This definition takes precedence over libc's (and over the sanitizer's weak
 * interceptor); libdispatch.a is linked statically so all its clock reads
 * come through here. */
int clock_gettime(clockid_t c, struct timespec *ts)
{
	if (g_virt && (c == CLOCK_REALTIME || c == CLOCK_MONOTONIC || c == CLOCK_BOOTTIME)) {
		uint64_t v = c == CLOCK_REALTIME ? g_v[CK_WALL] : c == CLOCK_BOOTTIME ? g_v[CK_MONO] : g_v[CK_UP];
		ts->tv_sec = (time_t)(v / 1000000000ull);
		ts->tv_nsec = (long)(v % 1000000000ull);
		return 0;
	}
	if (!real_cg) real_cg = (cg_fn)dlsym(RTLD_NEXT, "clock_gettime");
	return real_cg(c, ts);
}

static uint64_t real_now(int ck)
{
	struct timespec ts;
	clockid_t c = ck == CK_WALL ? CLOCK_REALTIME : ck == CK_MONO ? CLOCK_BOOTTIME : CLOCK_MONOTONIC;
	if (!real_cg) real_cg = (cg_fn)dlsym(RTLD_NEXT, "clock_gettime");
	real_cg(c, &ts);
	return (uint64_t)ts.tv_sec * 1000000000ull + (uint64_t)ts.tv_nsec;
}

static uint64_t now_read(int ck) { return g_virt ? g_v[ck] : real_now(ck); }

static double wall_s(void)
{
	struct timespec ts;
	if (!real_cg) real_cg = (cg_fn)dlsym(RTLD_NEXT, "clock_gettime");
	real_cg(CLOCK_MONOTONIC, &ts);
	return (double)ts.tv_sec + ts.tv_nsec / 1e9;
}

/* ------------------------------------------------------- documented encoding */

typedef struct { int clk; int sym_now; uint64_t val; } dec_t;

static dec_t decode(uint64_t t)
{
	dec_t d = { 0, 0, 0 };
	if (t == ~0ull) { d.clk = CK_FOREVER; return d; }
	if (!(t >> 63)) { d.clk = CK_UP; d.val = t; d.sym_now = (t == 0); }
	else if (!((t >> 62) & 1)) { d.clk = CK_MONO; d.val = t & ~(1ull << 63); d.sym_now = (d.val == 0); }
	else { d.clk = CK_WALL; d.val = (uint64_t)0 - t; d.sym_now = (t == ~1ull); }
	return d;
}

static char *i128s(i128 v, char *buf) /* buf >= 48 */
{
	char tmp[48]; int n = 0, neg = v < 0;
	unsigned __int128 u = neg ? (unsigned __int128)0 - (unsigned __int128)v : (unsigned __int128)v;
	if (u == 0) tmp[n++] = '0';
	while (u) { tmp[n++] = (char)('0' + (int)(u % 10)); u /= 10; }
	int p = 0; if (neg) buf[p++] = '-';
	while (n) buf[p++] = tmp[--n];
	buf[p] = 0; return buf;
}

static char *describe_time(uint64_t t, char *buf, size_t n)
{
	dec_t d = decode(t);
	if (d.clk == CK_FOREVER) snprintf(buf, n, "FOREVER");
	else if (d.sym_now) snprintf(buf, n, "%s", d.clk == CK_UP ? "TIME_NOW" : d.clk == CK_MONO ? "MONOTONICTIME_NOW" : "WALLTIME_NOW");
	else snprintf(buf, n, "%s %" PRIu64 "%s", CKNAME[d.clk], d.val, d.val > MAXV ? " (out of range)" : "");
	return buf;
}

/* -------------------------------------------------------------------- inputs */

enum { FN_TIME = 0, FN_WALLTIME = 1, FN_WAIT = 2 };

typedef struct {
	int fn;
	int ts_null;
	int virt;            /* -1 real clocks, else index of virtual reading */
	uint64_t base;       /* FN_TIME; FN_WAIT: the time waited for */
	int64_t sec, nsec;   /* FN_WALLTIME */
	int64_t delta;
	int64_t delta2;      /* NONMONO: the larger delta */
} input_t;

static const uint64_t VREAD[4][3] = {
	/* uptime,            monotonic,            wall */
	{ 1000003ull,         2000003ull,           3000003ull },
	{ 3600000000007ull,   3605000000011ull,     1790000000000000013ull },
	{ 1ull << 61,         (1ull << 61) + 7,     (1ull << 61) + 11 },
	{ (1ull << 62) - 5,   (1ull << 62) - 6,     (1ull << 62) - 7 },
};
#define NVREAD 4

static void set_mode(int virt)
{
	if (virt >= 0) { g_v[0] = VREAD[virt][0]; g_v[1] = VREAD[virt][1]; g_v[2] = VREAD[virt][2]; g_virt = 1; }
	else g_virt = 0;
}

static uint64_t do_call(const input_t *in)
{
	if (in->fn == FN_TIME) return dispatch_time(in->base, in->delta);
	if (in->ts_null) return dispatch_walltime(NULL, in->delta);
	struct timespec ts;
	ts.tv_sec = (time_t)in->sec; ts.tv_nsec = (long)in->nsec;
	return dispatch_walltime(&ts, in->delta);
}

/* ------------------------------------------------------------------- oracle */

enum { /* outcome kinds */
	OK_EXACT, OK_FOREVER_SAT, OK_ELAPSED_SAT, OK_FOREVER_ABSORB, OK_OOR_BASE_FOREVER,
	V_FIRST,
	V_CLOCK = V_FIRST, V_PAST_FOREVER, V_INRANGE_FOREVER, V_FUTURE_FINITE, V_WRONG_VALUE,
	V_NOT_ELAPSED, V_FOREVER_NOT_ABSORBING, V_NONMONO, V_WAIT_BLOCKED, V_WAIT_ZERO, V_WAIT_SLOW, V_CRASH,
	NKIND
};
static const char *KNAME[NKIND] = {
	"exact", "forever-saturated", "elapsed-saturated", "forever-absorbing", "out-of-range-base-forever",
	"clock-changed", "past-sum-gives-forever", "representable-sum-gives-forever", "future-sum-gives-finite-time",
	"wrong-value", "underflow-not-elapsed", "forever-not-absorbing", "non-monotone",
	"wait-on-elapsed-time-blocked", "wait-on-elapsed-time-returned-zero", "wait-on-elapsed-time-slow", "crash",
};
enum { BK_UP, BK_MONO, BK_WALL, BK_UP_NOW, BK_MONO_NOW, BK_WALL_NOW, BK_FOREVER, BK_OOR, NBK };

typedef struct {
	int kind, bkind, bclk, nowrel;
	uint64_t r; dec_t rd;
	i128 slo, shi;
	uint64_t before, after;
} ev_t;

static uint64_t g_nowcache[3];
static void refresh_nowcache(void) { for (int c = 0; c < 3; c++) g_nowcache[c] = now_read(c); }

static int is_elapsed(dec_t rd)
{
	if (rd.clk == CK_FOREVER) return 0;
	if (rd.sym_now) return 1;
	if (rd.val <= g_nowcache[rd.clk]) return 1;
	return rd.val <= now_read(rd.clk);
}

static input_t *g_cur_input; /* shared page: input being executed (crash attribution) */

static void evaluate(const input_t *in, ev_t *e)
{
	i128 blo = 0, bhi = 0;
	int C, nowrel = 0, oor = 0, bforever = 0, bkind;
	if (in->fn == FN_TIME) {
		dec_t bd = decode(in->base);
		C = bd.clk;
		if (bd.clk == CK_FOREVER) { bforever = 1; bkind = BK_FOREVER; }
		else if (bd.sym_now) { nowrel = 1; bkind = BK_UP_NOW + C; }
		else { blo = bhi = (i128)bd.val; if (bd.val > MAXV) { oor = 1; bkind = BK_OOR; } else bkind = C; }
	} else {
		C = CK_WALL;
		if (in->ts_null) { nowrel = 1; bkind = BK_WALL_NOW; }
		else { blo = bhi = (i128)in->sec * NSEC + (i128)in->nsec; bkind = BK_WALL; }
	}
	if (g_cur_input) *g_cur_input = *in;
	uint64_t before = 0, after = 0;
	if (nowrel) before = now_read(C);
	uint64_t r = do_call(in);
	if (nowrel) {
		after = now_read(C);
		if (after < before) { uint64_t t = after; after = before; before = t; } /* stepped wall clock */
		blo = (i128)before; bhi = (i128)after;
	}
	dec_t rd = decode(r);
	i128 slo = blo + (i128)in->delta, shi = bhi + (i128)in->delta;
	int rep_min = (C == CK_WALL) ? 3 : 1;
	int kind;
	if (bforever) {
		kind = (r == ~0ull) ? OK_FOREVER_ABSORB : V_FOREVER_NOT_ABSORBING;
	} else if (oor && r == ~0ull) {
		kind = OK_OOR_BASE_FOREVER;
	} else if (r == ~0ull) {
		if (shi >= (i128)MAXV) kind = OK_FOREVER_SAT;
		else if (shi < rep_min) kind = V_PAST_FOREVER;
		else kind = V_INRANGE_FOREVER;
	} else if (rd.clk != C) {
		kind = V_CLOCK;
	} else {
		int match;
		if (rd.sym_now) match = nowrel && in->delta == 0;
		else match = ((i128)rd.val >= slo && (i128)rd.val <= shi);
		if (match) kind = OK_EXACT;
		else if (slo < rep_min) kind = is_elapsed(rd) ? OK_ELAPSED_SAT : V_NOT_ELAPSED;
		else if (slo >= (i128)MAXV) kind = V_FUTURE_FINITE;
		else kind = V_WRONG_VALUE;
	}
	e->kind = kind; e->bkind = bkind; e->bclk = C; e->nowrel = nowrel;
	e->r = r; e->rd = rd; e->slo = slo; e->shi = shi; e->before = before; e->after = after;
}

/* --------------------------------------------------------------- alphabets */

typedef struct { uint64_t *v; int n, cap; uint64_t *ht; int htcap; } uset;

static void uset_init(uset *s, int cap)
{
	s->cap = cap; s->n = 0; s->v = calloc((size_t)cap, 8);
	s->htcap = 1; while (s->htcap < cap * 3) s->htcap <<= 1;
	s->ht = calloc((size_t)s->htcap, 8); /* stores index+1 */
}
static void uset_add(uset *s, uint64_t x)
{
	uint64_t h = (x * 0x9E3779B97F4A7C15ull) >> 20;
	for (;;) {
		h &= (uint64_t)(s->htcap - 1);
		if (!s->ht[h]) break;
		if (s->v[s->ht[h] - 1] == x) return;
		h++;
	}
	if (s->n >= s->cap) { fprintf(stderr, "uset overflow\n"); exit(2); }
	s->v[s->n] = x; s->ht[h] = (uint64_t)(++s->n);
}

static const uint64_t SECMULT[] = { 1, 2, 60, 3600, 86400, 31536000, 2147483647ull, 2147483648ull, 4294967296ull,
	4611686018ull, 4611686019ull, 9223372035ull, 9223372036ull, 9223372037ull, 18446744073ull };

/* raw 64-bit value lattice, simplest first */
static void gen_values(uset *s, int J, int sums)
{
	uset_add(s, 0); uset_add(s, 1); uset_add(s, 2);
	for (int k = 0; k <= 63; k++) {
		uint64_t p = 1ull << k;
		uset_add(s, p);
		for (int j = 1; j <= J; j++) { uset_add(s, p - (uint64_t)j); uset_add(s, p + (uint64_t)j); }
	}
	for (int j = 0; j <= J; j++) uset_add(s, ~0ull - (uint64_t)j);
	for (int j = -J; j <= J; j++) uset_add(s, (3ull << 62) + (uint64_t)(int64_t)j);
	if (sums) {
		for (size_t i = 0; i < sizeof SECMULT / sizeof *SECMULT; i++) uset_add(s, SECMULT[i] * 1000000000ull);
		for (int a = 1; a <= 63; a++) for (int b = 0; b < a; b++) {
			uset_add(s, (1ull << a) + (1ull << b));
			uset_add(s, (1ull << a) - (1ull << b));
		}
	}
}

static uint64_t *B; static int NB;          /* bases, simplest first */
static int64_t *D; static int ND;           /* deltas, simplest first */
static int *Dsorted;                        /* indices into D, ascending by value */
typedef struct { int null; int64_t sec, nsec; } tsv_t;
static tsv_t *T; static int NT;             /* timespecs, simplest first, NULL last */
static char g_bound[1024];

static int cmp_dsorted(const void *a, const void *b)
{
	int64_t x = D[*(const int *)a], y = D[*(const int *)b];
	return x < y ? -1 : x > y;
}

static void build_alphabets(int thorough)
{
	int J = thorough ? 8 : 4, sums = thorough;
	uset V; uset_init(&V, 8192); gen_values(&V, J, sums);

	uset bs; uset_init(&bs, V.n * 3 + 64);
	uset_add(&bs, DISPATCH_TIME_NOW); uset_add(&bs, 1); uset_add(&bs, 2);
	uset_add(&bs, (uint64_t)DISPATCH_WALLTIME_NOW); uset_add(&bs, (uint64_t)DISPATCH_MONOTONICTIME_NOW);
	uset_add(&bs, DISPATCH_TIME_FOREVER);
	for (int i = 0; i < V.n; i++) {
		uint64_t v = V.v[i];
		uset_add(&bs, v);                                             /* raw pattern (uptime when < 2^63) */
		if (v >= 1 && v <= (1ull << 62)) uset_add(&bs, (uint64_t)0 - v); /* wall clock, v ns since the epoch */
		if (v < (1ull << 62)) uset_add(&bs, (1ull << 63) | v);        /* monotonic clock */
	}
	B = bs.v; NB = bs.n;

	uset ds; uset_init(&ds, V.n * 2 + 64);
	uset_add(&ds, 0);
	for (int i = 0; i < V.n; i++) {
		uint64_t v = V.v[i];
		if (v >= 1 && v <= (uint64_t)INT64_MAX) { uset_add(&ds, v); uset_add(&ds, (uint64_t)0 - v); }
	}
	for (int j = 0; j <= 2; j++) { uset_add(&ds, (uint64_t)INT64_MIN + (uint64_t)j); uset_add(&ds, (uint64_t)INT64_MAX - (uint64_t)j); }
	D = (int64_t *)ds.v; ND = ds.n;
	Dsorted = malloc(sizeof(int) * (size_t)ND);
	for (int i = 0; i < ND; i++) Dsorted[i] = i;
	qsort(Dsorted, (size_t)ND, sizeof(int), cmp_dsorted);

	/* timespecs */
	uset secs; uset_init(&secs, 1024);
	static const int64_t qsec[] = { 0, 1, 2, 2147483647ll, 2147483648ll, 2147483649ll, 1ll << 33, 1ll << 34,
		4611686018ll, 4611686019ll, 9223372035ll, 9223372036ll, 9223372037ll, 18446744073ll, 18446744074ll,
		1ll << 62, INT64_MAX, -1 };
	for (size_t i = 0; i < sizeof qsec / sizeof *qsec; i++) uset_add(&secs, (uint64_t)qsec[i]);
	if (thorough) {
		for (int k = 0; k <= 63; k++) for (int j = -2; j <= 2; j++) uset_add(&secs, (1ull << k) + (uint64_t)(int64_t)j);
		for (size_t i = 0; i < sizeof SECMULT / sizeof *SECMULT; i++) uset_add(&secs, SECMULT[i]);
		uset_add(&secs, (uint64_t)-2ll); uset_add(&secs, (uint64_t)-2147483648ll);
	}
	static const int64_t qns[] = { 0, 1, 2, 3, 999999999 };
	static const int64_t tns[] = { 0, 1, 2, 3, 999999999, 999999998, 500000000 };
	const int64_t *ns = thorough ? tns : qns; int nns = thorough ? 7 : 5;
	T = calloc((size_t)(secs.n * nns + 1), sizeof *T); NT = 0;
	for (int i = 0; i < secs.n; i++) for (int j = 0; j < nns; j++) {
		T[NT].null = 0; T[NT].sec = (int64_t)secs.v[i]; T[NT].nsec = ns[j]; NT++;
	}
	T[NT].null = 1; NT++;
	snprintf(g_bound, sizeof g_bound,
		"full cross product: dispatch_time over %d bases (raw 2^k+j, j in -%d..%d, k=0..63%s, each also re-encoded on the wall and "
		"monotonic clocks, NOW/WALLTIME_NOW/MONOTONICTIME_NOW/FOREVER, 2^63+2^62+-j, ~0-j) x %d deltas (0, +-(2^k+j)%s, INT64_MIN..+2, "
		"INT64_MAX-2..); dispatch_walltime over %d timespecs (incl. NULL) x the same deltas; NOW-relative and near-now bases again "
		"under %d virtual clock readings; monotone walk per base over the sorted deltas; semaphore wait on elapsed results",
		NB, J, J, sums ? ", 2^a+-2^b, k*1e9" : "", ND, sums ? ", +-(2^a+-2^b)" : "", NT, NVREAD);
}

/* units of work: one base (or timespec) with all deltas */
typedef struct { int fn; int virt; int idx; uint64_t base; tsv_t ts; uint64_t brank; } unit_t;
static unit_t *U; static int NU;

static void add_unit(int fn, int virt, uint64_t base, tsv_t ts, uint64_t brank)
{
	U[NU].fn = fn; U[NU].virt = virt; U[NU].base = base; U[NU].ts = ts; U[NU].brank = brank; U[NU].idx = NU; NU++;
}

static uint64_t enc(int ck, uint64_t v)
{
	return ck == CK_UP ? v : ck == CK_MONO ? ((1ull << 63) | v) : (uint64_t)0 - v;
}

static void build_units(void)
{
	tsv_t nots = { 0, 0, 0 };
	U = calloc((size_t)(NB + NT + NVREAD * 64), sizeof *U); NU = 0;
	/* representative preference: explicit inputs < virtual-clock inputs < real-clock NOW-relative inputs */
	for (int i = 0; i < NB; i++) {
		dec_t d = decode(B[i]);
		add_unit(FN_TIME, -1, B[i], nots, (uint64_t)i + ((d.clk != CK_FOREVER && d.sym_now) ? 2000000u : 0u));
	}
	for (int i = 0; i < NT; i++) add_unit(FN_WALLTIME, -1, 0, T[i], (uint64_t)i + (T[i].null ? 2000000u : 0u));
	for (int r = 0; r < NVREAD; r++) {
		uint64_t rk = 1000000u + (uint64_t)r * 100u;
		add_unit(FN_TIME, r, DISPATCH_TIME_NOW, nots, rk++);
		add_unit(FN_TIME, r, (uint64_t)DISPATCH_WALLTIME_NOW, nots, rk++);
		add_unit(FN_TIME, r, (uint64_t)DISPATCH_MONOTONICTIME_NOW, nots, rk++);
		add_unit(FN_TIME, r, DISPATCH_TIME_FOREVER, nots, rk++);
		for (int c = 0; c < 3; c++) for (int j = -2; j <= 2; j++) {
			uint64_t v = VREAD[r][c] + (uint64_t)(int64_t)j;
			add_unit(FN_TIME, r, enc(c, v), nots, rk++);
		}
		tsv_t t = { 1, 0, 0 };
		add_unit(FN_WALLTIME, r, 0, t, rk++);
		for (int j = -1; j <= 1; j++) {
			uint64_t w = VREAD[r][CK_WALL] + (uint64_t)(int64_t)j;
			tsv_t t2 = { 0, (int64_t)(w / 1000000000ull), (int64_t)(w % 1000000000ull) };
			add_unit(FN_WALLTIME, r, 0, t2, rk++);
		}
	}
}

/* ------------------------------------------------------ results (shared mem) */

typedef struct {
	int used, fn, bclk, kind;
	uint64_t count, rank;
	input_t in;
	uint64_t r, r2;        /* result; NONMONO: result for delta2 */
	int nowrel;
	char sexact[48];       /* exact sum (explicit / virtual inputs) */
	int status;            /* V_CRASH: wait status */
} cls_t;

#define MAXCLS 96
#define NOUT (3 * NBK * NKIND * 4)
typedef struct {
	uint64_t calls, inputs, walks;
	uint8_t outcome[NOUT];
	cls_t cls[MAXCLS];
	volatile int cur_unit; volatile int done;
	input_t cur_input;
} wres_t;

static wres_t *g_res; /* this worker's */

static void note_outcome(int fn, int bkind, int kind, int rclk)
{
	int i = ((fn * NBK + bkind) * NKIND + kind) * 4 + rclk;
	g_res->outcome[i] = 1;
}

static int input_less(const input_t *a, const input_t *b)
{
	if (a->base != b->base) return a->base < b->base;
	if (a->sec != b->sec) return a->sec < b->sec;
	if (a->nsec != b->nsec) return a->nsec < b->nsec;
	if (a->delta != b->delta) return a->delta < b->delta;
	return a->delta2 < b->delta2;
}

static void note_violation_into(cls_t *tab, int fn, int bclk, int kind, uint64_t rank, const input_t *in,
		uint64_t r, uint64_t r2, int nowrel, i128 s, uint64_t count, int status)
{
	cls_t *c = NULL;
	for (int i = 0; i < MAXCLS; i++) {
		if (!tab[i].used) { c = &tab[i]; break; }
		if (tab[i].fn == fn && tab[i].bclk == bclk && tab[i].kind == kind) { c = &tab[i]; break; }
	}
	if (!c) return;
	if (!c->used) { memset(c, 0, sizeof *c); c->used = 1; c->fn = fn; c->bclk = bclk; c->kind = kind; c->rank = UINT64_MAX; }
	c->count += count;
	if (rank < c->rank || (rank == c->rank && input_less(in, &c->in))) {
		c->rank = rank; c->in = *in; c->r = r; c->r2 = r2; c->nowrel = nowrel; c->status = status;
		i128s(s, c->sexact);
	}
}

static void run_unit(const unit_t *u)
{
	set_mode(u->virt);
	refresh_nowcache();
	uint64_t nowref[3] = { g_nowcache[0], g_nowcache[1], g_nowcache[2] };
	input_t in; memset(&in, 0, sizeof in);
	in.fn = u->fn; in.virt = u->virt; in.base = u->base;
	in.ts_null = u->ts.null; in.sec = u->ts.sec; in.nsec = u->ts.nsec;
	int have_prev = 0; i128 prev_ord = 0; int64_t prev_delta = 0; uint64_t prev_r = 0, prev_w = 0; int prev_di = 0;
	const i128 INF = (i128)1 << 100;
	for (int k = 0; k < ND; k++) {
		int di = Dsorted[k];
		in.delta = D[di]; in.delta2 = 0;
		ev_t e; evaluate(&in, &e);
		g_res->calls++; g_res->inputs++;
		note_outcome(u->fn, e.bkind, e.kind, e.rd.clk);
		if (e.kind >= V_FIRST)
			note_violation_into(g_res->cls, u->fn, e.bclk, e.kind, u->brank + (uint64_t)di, &in, e.r, 0, e.nowrel && u->virt < 0, e.slo, 1, 0);
		/* monotone in delta (all already-elapsed results are equivalent) */
		if (e.bclk != CK_FOREVER && (e.r == ~0ull || e.rd.clk == e.bclk)) {
			i128 ord; uint64_t w = 0;
			if (e.r == ~0ull) ord = INF;
			else if (e.nowrel) {
				ord = e.rd.sym_now ? 0 : (i128)e.rd.val - (i128)e.before;
				if (ord < 0) ord = 0;
				w = e.after - e.before;
			} else {
				ord = (e.rd.sym_now || e.rd.val <= nowref[e.rd.clk]) ? 0 : (i128)e.rd.val;
			}
			if (have_prev && prev_ord > ord + (i128)prev_w + (i128)w) {
				input_t p = in; p.delta = prev_delta; p.delta2 = in.delta;
				note_outcome(u->fn, e.bkind, V_NONMONO, e.rd.clk);
				note_violation_into(g_res->cls, u->fn, e.bclk, V_NONMONO, u->brank + (uint64_t)di + (uint64_t)prev_di, &p,
					prev_r, e.r, e.nowrel && u->virt < 0, 0, 1, 0);
			}
			have_prev = 1; prev_ord = ord; prev_delta = in.delta; prev_r = e.r; prev_w = w; prev_di = di;
		}
	}
	g_res->walks++;
}

/* ------------------------------------------------------------- wait (P4) */

/* returns kind: -1 ok, or V_WAIT_* / V_CRASH; *ms = duration */
static int wait_check(uint64_t t, double *ms, int *status_out)
{
	fflush(NULL);
	pid_t pid = fork();
	if (pid < 0) return V_CRASH;
	if (pid == 0) {
		set_mode(-1);
		signal(SIGALRM, SIG_DFL);
		struct itimerval it = { { 0, 0 }, { 1, 0 } }; /* watchdog 1 s */
		setitimer(ITIMER_REAL, &it, NULL);
		dispatch_semaphore_t s = dispatch_semaphore_create(0);
		double t0 = wall_s();
		long rc = dispatch_semaphore_wait(s, t);
		double dt = wall_s() - t0;
		if (rc == 0) _exit(3);
		if (dt >= 0.5) _exit(4);
		_exit(0);
	}
	double t0 = wall_s(); int st = 0;
	while (waitpid(pid, &st, 0) < 0 && errno == EINTR) { }
	if (ms) *ms = (wall_s() - t0) * 1000.0;
	if (status_out) *status_out = st;
	if (WIFSIGNALED(st)) return WTERMSIG(st) == SIGALRM ? V_WAIT_BLOCKED : V_CRASH;
	switch (WEXITSTATUS(st)) { case 0: return -1; case 3: return V_WAIT_ZERO; case 4: return V_WAIT_SLOW; default: return V_CRASH; }
}

typedef struct { uint64_t t; input_t from; int kind; double ms; int status; } wcand_t;
#define WPER 70
static wcand_t g_wc[3 * WPER + 16]; static int g_nwc; static int g_wper[3];

static void wc_consider(const input_t *in, int cap)
{
	ev_t e; evaluate(in, &e);
	if (e.kind >= V_FIRST || e.rd.clk == CK_FOREVER) return;
	if (!is_elapsed(e.rd)) return;
	if (g_wper[e.rd.clk] >= cap || g_nwc >= (int)(sizeof g_wc / sizeof *g_wc)) return;
	for (int i = 0; i < g_nwc; i++) if (g_wc[i].t == e.r) return;
	g_wc[g_nwc].t = e.r; g_wc[g_nwc].from = *in; g_nwc++; g_wper[e.rd.clk]++;
}

/* deterministic candidate list: results (accepted by the model) that have already elapsed */
static uint64_t build_wait_candidates(void)
{
	uint64_t calls = 0;
	set_mode(-1); refresh_nowcache();
	input_t in; memset(&in, 0, sizeof in); in.virt = -1;
	static const int64_t wd[] = { 0, -1, 1, -2, 2, -1000, 1000, -1000000000ll, INT64_MIN, -4611686018427387904ll };
	/* NOW-relative first, then explicit bases in lattice order */
	uint64_t nowb[3] = { DISPATCH_TIME_NOW, (uint64_t)DISPATCH_MONOTONICTIME_NOW, (uint64_t)DISPATCH_WALLTIME_NOW };
	in.fn = FN_TIME;
	for (int b = 0; b < 3; b++) for (size_t j = 0; j < sizeof wd / sizeof *wd; j++) {
		if (wd[j] > 0) continue;
		in.base = nowb[b]; in.delta = wd[j]; wc_consider(&in, WPER); calls++;
	}
	/* times "now" on each clock, explicitly encoded, and a hair before */
	for (int c = 0; c < 3; c++) for (int j = 0; j <= 2; j++) {
		in.base = enc(c, real_now(c) - (uint64_t)j); in.delta = 0; wc_consider(&in, WPER); calls++;
	}
	for (int i = 0; i < NB && (g_wper[0] < WPER || g_wper[1] < WPER || g_wper[2] < WPER); i++)
		for (size_t j = 0; j < sizeof wd / sizeof *wd; j++) {
			dec_t d = decode(B[i]);
			if (d.clk == CK_FOREVER || g_wper[d.clk] >= WPER) continue;
			in.base = B[i]; in.delta = wd[j]; wc_consider(&in, WPER); calls++;
		}
	in.fn = FN_WALLTIME; in.base = 0;
	for (int i = 0; i < NT && i < 60; i++) for (size_t j = 0; j < 5; j++) {
		in.ts_null = T[i].null; in.sec = T[i].sec; in.nsec = T[i].nsec; in.delta = wd[j];
		wc_consider(&in, WPER + 16); calls++;
	}
	return calls;
}

/* run all candidates, up to npar children at a time */
static void run_wait_phase(int npar, cls_t *tab, uint64_t *calls, uint8_t *outcome)
{
	typedef struct { pid_t pid; int idx; double t0; } slot_t;
	slot_t *slots = calloc((size_t)npar, sizeof *slots);
	int next = 0, live = 0;
	fflush(NULL);
	while (next < g_nwc || live > 0) {
		while (next < g_nwc && live < npar) {
			int s = 0; while (slots[s].pid) s++;
			pid_t pid = fork();
			if (pid < 0) { perror("fork"); exit(2); }
			if (pid == 0) {
				set_mode(-1);
				signal(SIGALRM, SIG_DFL);
				struct itimerval it = { { 0, 0 }, { 1, 0 } };
				setitimer(ITIMER_REAL, &it, NULL);
				dispatch_semaphore_t sem = dispatch_semaphore_create(0);
				double t0 = wall_s();
				long rc = dispatch_semaphore_wait(sem, g_wc[next].t);
				double dt = wall_s() - t0;
				_exit(rc == 0 ? 3 : dt >= 0.5 ? 4 : 0);
			}
			slots[s].pid = pid; slots[s].idx = next; slots[s].t0 = wall_s(); next++; live++;
			(*calls)++;
		}
		int st = 0; pid_t p = waitpid(-1, &st, 0);
		if (p < 0) { if (errno == EINTR) continue; break; }
		for (int s = 0; s < npar; s++) if (slots[s].pid == p) {
			wcand_t *c = &g_wc[slots[s].idx];
			c->ms = (wall_s() - slots[s].t0) * 1000.0; c->status = st;
			if (WIFSIGNALED(st)) c->kind = WTERMSIG(st) == SIGALRM ? V_WAIT_BLOCKED : V_CRASH;
			else switch (WEXITSTATUS(st)) { case 0: c->kind = -1; break; case 3: c->kind = V_WAIT_ZERO; break;
				case 4: c->kind = V_WAIT_SLOW; break; default: c->kind = V_CRASH; }
			slots[s].pid = 0; live--;
		}
	}
	free(slots);
	for (int i = 0; i < g_nwc; i++) {
		wcand_t *c = &g_wc[i];
		dec_t d = decode(c->t);
		int k = c->kind < 0 ? OK_EXACT : c->kind;
		outcome[((2 * NBK + d.clk) * NKIND + k) * 4 + d.clk] = 1;
		if (c->kind >= 0) {
			input_t in; memset(&in, 0, sizeof in); in.fn = FN_WAIT; in.virt = -1; in.base = c->t;
			/* stable representative: the smallest (oldest) time of the class, e.g. "MONOTONIC 1" */
			note_violation_into(tab, FN_WAIT, d.clk, c->kind, d.sym_now ? 0 : d.val, &in, c->t, 0, 0, 0, 1, c->status);
		}
	}
}

/* ------------------------------------------------------------ text / JSON */

static void jesc(FILE *f, const char *s)
{
	for (; *s; s++) {
		if (*s == '"' || *s == '\\') fprintf(f, "\\%c", *s);
		else if ((unsigned char)*s < 0x20) fprintf(f, "\\u%04x", *s);
		else fputc(*s, f);
	}
}

static const char *fnname(int fn) { return fn == FN_TIME ? "dispatch_time" : fn == FN_WALLTIME ? "dispatch_walltime" : "dispatch_semaphore_wait"; }

static void input_text(const input_t *in, char *buf, size_t n, int with_delta)
{
	char d[64], tmp[96];
	size_t p = 0;
	if (in->fn == FN_TIME) p += (size_t)snprintf(buf + p, n - p, "dispatch_time base=0x%016" PRIx64 "[%s]", in->base, describe_time(in->base, tmp, sizeof tmp));
	else if (in->fn == FN_WALLTIME) {
		if (in->ts_null) p += (size_t)snprintf(buf + p, n - p, "dispatch_walltime ts=NULL");
		else p += (size_t)snprintf(buf + p, n - p, "dispatch_walltime ts=(%" PRId64 ",%" PRId64 ")", in->sec, in->nsec);
	} else p += (size_t)snprintf(buf + p, n - p, "dispatch_semaphore_wait(sema(0), 0x%016" PRIx64 "[%s])", in->base, describe_time(in->base, d, sizeof d));
	if (with_delta && in->fn != FN_WAIT) p += (size_t)snprintf(buf + p, n - p, " delta=%" PRId64, in->delta);
	if (in->virt >= 0) p += (size_t)snprintf(buf + p, n - p, " vclock=(up=%" PRIu64 ",mono=%" PRIu64 ",wall=%" PRIu64 ")",
		VREAD[in->virt][0], VREAD[in->virt][1], VREAD[in->virt][2]);
}

/* stable signature + detail for a class */
static void class_text(const cls_t *c, char *sig, size_t sn, char *detail, size_t dn)
{
	char in[320], rdesc[96], r2desc[96], what[512];
	const char *clk = CKNAME[c->bclk];
	input_text(&c->in, in, sizeof in, c->kind != V_NONMONO);
	describe_time(c->r, rdesc, sizeof rdesc);
	int stable = !c->nowrel; /* real-clock NOW-relative: result values differ from run to run */
	char rtxt[160];
	if (stable) snprintf(rtxt, sizeof rtxt, "result 0x%016" PRIx64 "[%s]", c->r, rdesc);
	else snprintf(rtxt, sizeof rtxt, "result");
	const char *sum = stable ? c->sexact : "now+delta";
	dec_t rd = decode(c->r);
	switch (c->kind) {
	case V_CLOCK: snprintf(what, sizeof what, "%s decodes as clock %s, expected %s or FOREVER", rtxt, CKNAME[rd.clk], clk); break;
	case V_PAST_FOREVER: snprintf(what, sizeof what, "result FOREVER but the exact sum %s precedes the representable past; expected an already elapsed %s time", sum, clk); break;
	case V_INRANGE_FOREVER: snprintf(what, sizeof what, "result FOREVER but the exact sum %s is representable; expected %s %s", sum, clk, sum); break;
	case V_FUTURE_FINITE: snprintf(what, sizeof what, "%s is a finite time but the exact sum %s is beyond the representable future; expected FOREVER", rtxt, sum); break;
	case V_WRONG_VALUE: snprintf(what, sizeof what, "%s, expected %s %s", rtxt, clk, sum); break;
	case V_NOT_ELAPSED: snprintf(what, sizeof what, "%s has not elapsed but the exact sum %s precedes the representable past; expected an already elapsed %s time", rtxt, sum, clk); break;
	case V_FOREVER_NOT_ABSORBING: snprintf(what, sizeof what, "%s, expected FOREVER (FOREVER is absorbing)", rtxt); break;
	case V_NONMONO:
		describe_time(c->r2, r2desc, sizeof r2desc);
		if (stable) snprintf(what, sizeof what, "delta=%" PRId64 " gives 0x%016" PRIx64 "[%s] but the larger delta=%" PRId64 " gives the earlier 0x%016" PRIx64 "[%s]",
			c->in.delta, c->r, rdesc, c->in.delta2, c->r2, r2desc);
		else snprintf(what, sizeof what, "delta=%" PRId64 " gives a later time than the larger delta=%" PRId64, c->in.delta, c->in.delta2);
		break;
	case V_WAIT_BLOCKED: snprintf(what, sizeof what, "blocked (> 1 s, killed by watchdog) although the time has already elapsed on the %s clock; expected prompt non-zero return", clk); break;
	case V_WAIT_ZERO: snprintf(what, sizeof what, "returned 0 (success) on a semaphore with value 0; expected non-zero (timed out)"); break;
	case V_WAIT_SLOW: snprintf(what, sizeof what, "returned non-zero only after >= 0.5 s although the time has already elapsed on the %s clock", clk); break;
	case V_CRASH: snprintf(what, sizeof what, "process died (wait status 0x%x): sanitizer report or crash", c->status); break;
	default: snprintf(what, sizeof what, "?"); break;
	}
	/* for wait classes on clock-dependent times, keep the signature free of the varying value */
	if (c->fn == FN_WAIT && !(rd.sym_now) && rd.clk != CK_FOREVER && rd.val > 1000000)
		snprintf(sig, sn, "dispatch_semaphore_wait(sema(0), <elapsed %s time>): %s", CKNAME[rd.clk], what);
	else snprintf(sig, sn, "%s: %s", in, what);
	snprintf(detail, dn, "class %s/%s/%s, %" PRIu64 " failing inputs in the lattice; representative result 0x%016" PRIx64 "[%s]%s%s",
		fnname(c->fn), clk, KNAME[c->kind], c->count, c->r, rdesc, stable && c->kind != V_NONMONO && c->fn != FN_WAIT ? ", exact sum " : "",
		stable && c->kind != V_NONMONO && c->fn != FN_WAIT ? c->sexact : "");
}

static char g_replay_dir[PATH_MAX] = "/verif/out/replay";
static char g_self[PATH_MAX];

static void write_input_json(FILE *f, const input_t *in, int kind)
{
	fprintf(f, "{\"fn\": \"%s\", \"kind\": \"%s\", \"virt\": %d, ", fnname(in->fn), KNAME[kind], in->virt);
	if (in->virt >= 0) fprintf(f, "\"vclock\": [\"%" PRIu64 "\", \"%" PRIu64 "\", \"%" PRIu64 "\"], ", VREAD[in->virt][0], VREAD[in->virt][1], VREAD[in->virt][2]);
	fprintf(f, "\"base\": \"0x%016" PRIx64 "\", \"ts_null\": %d, \"sec\": \"%" PRId64 "\", \"nsec\": \"%" PRId64 "\", \"delta\": \"%" PRId64 "\", \"delta2\": \"%" PRId64 "\", \"nonmono\": %d}",
		in->base, in->ts_null, in->sec, in->nsec, in->delta, in->delta2, kind == V_NONMONO);
}

static int write_replay(const cls_t *c, int n, char *path, size_t pn)
{
	snprintf(path, pn, "%s/%s-%s-%d.json", g_replay_dir, PROP, NAME, n);
	FILE *f = fopen(path, "w");
	if (!f) return -1;
	fprintf(f, "{\"engine\": \"seqx\", \"replay_cmd\": [\""); jesc(f, g_self); fprintf(f, "\", \"--replay\", \"{replay}\"], \"input\": ");
	write_input_json(f, &c->in, c->kind);
	fprintf(f, "}\n");
	fclose(f);
	return 0;
}

/* ------------------------------------------------------------------ replay */

static int jfind(const char *doc, const char *key, char *out, size_t n)
{
	char pat[64]; snprintf(pat, sizeof pat, "\"%s\":", key);
	const char *in = strstr(doc, "\"input\"");
	const char *p = strstr(in ? in : doc, pat);
	if (!p) return -1;
	p += strlen(pat);
	while (*p == ' ') p++;
	if (*p == '"') p++;
	size_t i = 0;
	while (*p && *p != '"' && *p != ',' && *p != '}' && i + 1 < n) out[i++] = *p++;
	out[i] = 0;
	return 0;
}

static void print_eval(const input_t *in, const ev_t *e)
{
	char it[320], rd[96], a[48], b[48];
	input_text(in, it, sizeof it, 1);
	printf("%s\n  -> 0x%016" PRIx64 " [%s]\n", it, e->r, describe_time(e->r, rd, sizeof rd));
	if (e->bclk == CK_FOREVER) printf("  model: base is FOREVER, result must be FOREVER\n");
	else printf("  model: clock %s, exact sum in [%s, %s]%s; FOREVER allowed iff sum >= %" PRIu64 "; elapsed-saturation allowed iff sum < %d\n",
		CKNAME[e->bclk], i128s(e->slo, a), i128s(e->shi, b), e->nowrel ? " (NOW-relative, clock bracket)" : "", MAXV, e->bclk == CK_WALL ? 3 : 1);
	printf("  verdict: %s%s\n", e->kind >= V_FIRST ? "VIOLATION " : "ok ", KNAME[e->kind]);
}

static int do_replay(const char *path)
{
	FILE *f = fopen(path, "r");
	if (!f) { perror(path); return 2; }
	static char doc[8192]; size_t n = fread(doc, 1, sizeof doc - 1, f); doc[n] = 0; fclose(f);
	char v[128]; input_t in; memset(&in, 0, sizeof in);
	if (jfind(doc, "fn", v, sizeof v)) { fprintf(stderr, "bad replay file\n"); return 2; }
	in.fn = !strcmp(v, "dispatch_time") ? FN_TIME : !strcmp(v, "dispatch_walltime") ? FN_WALLTIME : FN_WAIT;
	in.virt = -1; if (!jfind(doc, "virt", v, sizeof v)) in.virt = atoi(v);
	if (in.virt >= NVREAD) return 2;
	if (!jfind(doc, "base", v, sizeof v)) in.base = strtoull(v, NULL, 0);
	if (!jfind(doc, "ts_null", v, sizeof v)) in.ts_null = atoi(v);
	if (!jfind(doc, "sec", v, sizeof v)) in.sec = strtoll(v, NULL, 10);
	if (!jfind(doc, "nsec", v, sizeof v)) in.nsec = strtoll(v, NULL, 10);
	if (!jfind(doc, "delta", v, sizeof v)) in.delta = strtoll(v, NULL, 10);
	if (!jfind(doc, "delta2", v, sizeof v)) in.delta2 = strtoll(v, NULL, 10);
	int nonmono = 0; if (!jfind(doc, "nonmono", v, sizeof v)) nonmono = atoi(v);
	int bad = 0;
	if (in.fn == FN_WAIT) {
		char d[96]; double ms = 0; int st = 0;
		set_mode(-1);
		dec_t rd = decode(in.base);
		printf("dispatch_semaphore_wait(sema(0), 0x%016" PRIx64 " [%s])\n", in.base, describe_time(in.base, d, sizeof d));
		if (rd.clk != CK_FOREVER && !rd.sym_now)
			printf("  now on the %s clock = %" PRIu64 " -> the time has %s\n", CKNAME[rd.clk], real_now(rd.clk), rd.val <= real_now(rd.clk) ? "already elapsed" : "NOT elapsed");
		int k = wait_check(in.base, &ms, &st);
		printf("  -> %s after %.1f ms\n  verdict: %s\n", k < 0 ? "returned non-zero promptly" : KNAME[k], ms, k < 0 ? "ok" : "VIOLATION");
		return k < 0 ? 0 : 1;
	}
	set_mode(in.virt); refresh_nowcache();
	ev_t e; evaluate(&in, &e); print_eval(&in, &e);
	if (e.kind >= V_FIRST) bad = 1;
	if (nonmono) {
		input_t in2 = in; in2.delta = in.delta2; ev_t e2; evaluate(&in2, &e2); print_eval(&in2, &e2);
		if (e2.kind >= V_FIRST) bad = 1;
		int later1 = e.r == ~0ull ? (e2.r != ~0ull) : (e2.r != ~0ull && e.rd.clk == e2.rd.clk && !is_elapsed(e.rd) &&
			(e2.rd.sym_now || e.rd.val > e2.rd.val + (e.after - e.before) + (e2.after - e2.before)));
		printf("  monotone: delta %" PRId64 " < %" PRId64 " and the first result is %s than the second\n  verdict: %s\n", in.delta, in2.delta,
			later1 ? "LATER" : "not later", later1 ? "VIOLATION non-monotone" : "ok");
		if (later1) bad = 1;
	}
	return bad;
}

/* -------------------------------------------------------------------- main */

static int cls_cmp(const void *a, const void *b)
{
	const cls_t *x = a, *y = b;
	if (x->rank != y->rank) return x->rank < y->rank ? -1 : 1;
	if (x->fn != y->fn) return x->fn - y->fn;
	if (x->bclk != y->bclk) return x->bclk - y->bclk;
	return x->kind - y->kind;
}

static void sample_json(FILE *f, const input_t *in)
{
	set_mode(in->virt); refresh_nowcache();
	ev_t e; evaluate(in, &e);
	char it[320], rd[96], a[48];
	input_text(in, it, sizeof it, 1);
	fprintf(f, "{\"call\": \""); jesc(f, it);
	fprintf(f, "\", \"result\": \"0x%016" PRIx64 "\", \"decodes_as\": \"%s\", \"expected_clock\": \"%s\", \"exact_sum_lo\": \"%s\", \"verdict\": \"%s\"}",
		e.r, describe_time(e.r, rd, sizeof rd), CKNAME[e.bclk], e.bclk == CK_FOREVER ? "-" : i128s(e.slo, a), KNAME[e.kind]);
	set_mode(-1);
}

int main(int argc, char **argv)
{
	const char *tier = "quick", *jsonf = NULL, *replay = NULL;
	for (int i = 1; i < argc; i++) {
		if (!strcmp(argv[i], "--tier") && i + 1 < argc) tier = argv[++i];
		else if (!strcmp(argv[i], "--json") && i + 1 < argc) jsonf = argv[++i];
		else if (!strcmp(argv[i], "--replay") && i + 1 < argc) replay = argv[++i];
		else { fprintf(stderr, "usage: %s --tier quick|thorough --json <file> | --replay <file>\n", argv[0]); return 2; }
	}
	if (replay) return do_replay(replay);
	if (!jsonf || (strcmp(tier, "quick") && strcmp(tier, "thorough"))) { fprintf(stderr, "need --tier quick|thorough --json <file>\n"); return 2; }
	int thorough = !strcmp(tier, "thorough");
	double t_start = wall_s();
	ssize_t sl = readlink("/proc/self/exe", g_self, sizeof g_self - 1);
	if (sl <= 0) snprintf(g_self, sizeof g_self, "/verif/build/seqx/%s", NAME); else g_self[sl] = 0;
	if (getenv("VERIF_REPLAY_DIR")) snprintf(g_replay_dir, sizeof g_replay_dir, "%s", getenv("VERIF_REPLAY_DIR"));
	mkdir("/verif/out", 0777); mkdir(g_replay_dir, 0777);

	build_alphabets(thorough);
	build_units();

	int nw = (int)sysconf(_SC_NPROCESSORS_ONLN);
	if (getenv("SEQX_WORKERS")) nw = atoi(getenv("SEQX_WORKERS"));
	if (nw < 1) nw = 1;
	if (nw > 16) nw = 16;

	wres_t *res = mmap(NULL, sizeof(wres_t) * (size_t)nw, PROT_READ | PROT_WRITE, MAP_SHARED | MAP_ANONYMOUS, -1, 0);
	if (res == MAP_FAILED) { perror("mmap"); return 2; }
	memset(res, 0, sizeof(wres_t) * (size_t)nw);
	for (int w = 0; w < nw; w++) res[w].cur_unit = w - nw; /* "none started" */

	cls_t crash[MAXCLS]; memset(crash, 0, sizeof crash);
	int exhaustive = 1, driver_error = 0;
	pid_t *pids = calloc((size_t)nw, sizeof *pids);
	int live = 0;
	fflush(NULL);
	for (int w = 0; w < nw; w++) {
		pid_t pid = fork();
		if (pid < 0) { perror("fork"); return 2; }
		if (pid == 0) {
			g_res = &res[w]; g_cur_input = &res[w].cur_input;
			for (int u = res[w].cur_unit + nw; u < NU; u += nw) {
				res[w].cur_unit = u;
				run_unit(&U[u]);
			}
			res[w].done = 1;
			_exit(0);
		}
		pids[w] = pid; live++;
	}
	while (live > 0) {
		int st = 0; pid_t p = waitpid(-1, &st, 0);
		if (p < 0) { if (errno == EINTR) continue; break; }
		int w = -1; for (int i = 0; i < nw; i++) if (pids[i] == p) w = i;
		if (w < 0) continue;
		live--; pids[w] = 0;
		if (res[w].done && WIFEXITED(st) && WEXITSTATUS(st) == 0) continue;
		/* the worker died: attribute to the input it was executing, then continue after that unit */
		input_t ci = res[w].cur_input;
		dec_t bd = decode(ci.base);
		int bclk = ci.fn == FN_WALLTIME ? CK_WALL : bd.clk;
		int cu = res[w].cur_unit;
		note_violation_into(crash, ci.fn, bclk, V_CRASH, cu >= 0 && cu < NU ? U[cu].brank : 0, &ci, 0, 0, 0, 0, 1, st);
		exhaustive = 0; /* the remaining deltas of that unit were not evaluated */
		if (cu < 0) { driver_error = 1; continue; }
		pid_t pid = fork();
		if (pid < 0) { driver_error = 1; continue; }
		if (pid == 0) {
			g_res = &res[w]; g_cur_input = &res[w].cur_input;
			for (int u = cu + nw; u < NU; u += nw) { res[w].cur_unit = u; run_unit(&U[u]); }
			res[w].done = 1; _exit(0);
		}
		pids[w] = pid; live++;
	}

	/* merge */
	uint64_t calls = 0, inputs = 0, walks = 0;
	static uint8_t outcome[NOUT];
	static cls_t merged[MAXCLS];
	for (int w = 0; w < nw; w++) {
		calls += res[w].calls; inputs += res[w].inputs; walks += res[w].walks;
		for (int i = 0; i < NOUT; i++) outcome[i] |= res[w].outcome[i];
		for (int i = 0; i < MAXCLS && res[w].cls[i].used; i++) {
			cls_t *c = &res[w].cls[i];
			cls_t *m = NULL;
			for (int k = 0; k < MAXCLS; k++) {
				if (!merged[k].used) { m = &merged[k]; break; }
				if (merged[k].fn == c->fn && merged[k].bclk == c->bclk && merged[k].kind == c->kind) { m = &merged[k]; break; }
			}
			if (!m) continue;
			if (!m->used) { *m = *c; continue; }
			uint64_t cnt = m->count + c->count;
			if (c->rank < m->rank || (c->rank == m->rank && input_less(&c->in, &m->in))) *m = *c;
			m->count = cnt;
		}
	}
	for (int i = 0; i < MAXCLS && crash[i].used; i++)
		for (int k = 0; k < MAXCLS; k++) if (!merged[k].used) { merged[k] = crash[i]; break; }

	/* P4: waiting until an elapsed time does not block */
	uint64_t wait_calls = 0;
	uint64_t cand_calls = build_wait_candidates();
	static cls_t waitcls[MAXCLS];
	run_wait_phase(nw, waitcls, &wait_calls, outcome);
	for (int i = 0; i < MAXCLS && waitcls[i].used; i++)
		for (int k = 0; k < MAXCLS; k++) if (!merged[k].used) { merged[k] = waitcls[i]; break; }
	int wait_ok = 0; for (int i = 0; i < g_nwc; i++) if (g_wc[i].kind < 0) wait_ok++;

	int ncls = 0; while (ncls < MAXCLS && merged[ncls].used) ncls++;
	qsort(merged, (size_t)ncls, sizeof *merged, cls_cmp);
	int distinct = 0; for (int i = 0; i < NOUT; i++) distinct += outcome[i];
	uint64_t total_viol = 0; for (int i = 0; i < ncls; i++) total_viol += merged[i].count;

	uint64_t expect_inputs = (uint64_t)NU * (uint64_t)ND;
	if (inputs != expect_inputs) exhaustive = 0;

	FILE *f = fopen(jsonf, "w");
	if (!f) { perror(jsonf); return 2; }
	uint64_t evals = inputs + (uint64_t)g_nwc;
	fprintf(f, "{\"name\": \"%s\", \"property\": \"%s\", \"tier\": \"%s\",\n \"bound\": \"", NAME, PROP, tier); jesc(f, g_bound);
	fprintf(f, "\",\n \"states\": %" PRIu64 ", \"transitions\": %" PRIu64 ", \"evaluations\": %" PRIu64 ", \"distinct_outcomes\": %d, "
		"\"traces_validated_against_impl\": %" PRIu64 ", \"exhaustive\": %s,\n",
		evals, calls + cand_calls + wait_calls, evals, distinct, evals, exhaustive ? "true" : "false");
	fprintf(f, " \"counts\": {\"bases\": %d, \"deltas\": %d, \"timespecs\": %d, \"virtual_clock_readings\": %d, \"units\": %d, \"monotone_walks\": %" PRIu64
		", \"arith_inputs\": %" PRIu64 ", \"wait_candidates\": %d, \"wait_ok\": %d, \"workers\": %d, \"failing_inputs\": %" PRIu64 ", \"violation_classes\": %d},\n",
		NB, ND, NT, NVREAD, NU, walks, inputs, g_nwc, wait_ok, nw, total_viol, ncls);
	fprintf(f, " \"samples\": [\n");
	{
		input_t s[5]; memset(s, 0, sizeof s);
		s[0].fn = FN_TIME; s[0].virt = -1; s[0].base = 1000; s[0].delta = 5;
		s[1].fn = FN_TIME; s[1].virt = -1; s[1].base = (uint64_t)-1000000ll; s[1].delta = INT64_MAX;
		s[2].fn = FN_TIME; s[2].virt = 1; s[2].base = (uint64_t)DISPATCH_MONOTONICTIME_NOW; s[2].delta = -4000000000000ll;
		s[3].fn = FN_WALLTIME; s[3].virt = -1; s[3].sec = 1790000000; s[3].nsec = 1; s[3].delta = -1;
		s[4].fn = FN_WALLTIME; s[4].virt = -1; s[4].sec = 1ll << 33; s[4].nsec = 0; s[4].delta = 0;
		for (int i = 0; i < 5; i++) { fprintf(f, "  "); sample_json(f, &s[i]); fprintf(f, i < 4 ? ",\n" : "\n"); }
	}
	fprintf(f, " ],\n \"violations_list\": [\n");
	int listed = ncls > 20 ? 20 : ncls;
	for (int i = 0; i < listed; i++) {
		char sig[1024], detail[640], path[PATH_MAX];
		class_text(&merged[i], sig, sizeof sig, detail, sizeof detail);
		if (write_replay(&merged[i], i, path, sizeof path)) { perror(path); driver_error = 1; }
		fprintf(f, "  {\"signature\": \""); jesc(f, sig); fprintf(f, "\", \"replay\": \""); jesc(f, path);
		fprintf(f, "\", \"detail\": \""); jesc(f, detail); fprintf(f, "\"}%s\n", i + 1 < listed ? "," : "");
		fprintf(stderr, "VIOLATION %s\n    %s\n    replay: %s\n", sig, detail, path);
	}
	double wall = wall_s() - t_start;
	fprintf(f, " ],\n \"violation_classes_total\": %d,\n \"wall_s\": %.2f}\n", ncls, wall);
	fclose(f);
	fprintf(stderr, "%s %s: %d bases x %d deltas + %d timespecs x %d deltas + virtual = %" PRIu64 " inputs, %" PRIu64 " library calls, "
		"%d wait checks (%d ok), %d distinct outcomes, %d violation classes (%" PRIu64 " failing inputs), exhaustive=%d, %.2f s\n",
		NAME, tier, NB, ND, NT, ND, inputs, calls + cand_calls + wait_calls, g_nwc, wait_ok, distinct, ncls, total_viol, exhaustive, wall);
	if (driver_error) return 2;
	return ncls ? 1 : 0;
}
