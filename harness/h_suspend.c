// C06 — inactive and suspended queues run nothing; resume restarts them
//
// Scenarios are small scripts: per thread a string of ops on ONE queue
//   U suspend   R resume   V activate   a async item   s sync item   z sleep 1 virtual ms
//   x async an item whose body calls dispatch_suspend on the queue (suspend from an item)
//   X barrier_async such an item (concurrent queue)   Y dispatch_sync such an item
//   w wait (scheduler-level) until an item has executed its inner suspend
// prologue: P<n> = n nested suspends (and, after the threads, n resumes) issued by the main
// thread outside the explored window; kind: S serial, C concurrent, I serial initially inactive.
//
// Oracle (walks the log): depth = suspends returned - resumes called (+1 while an
// initially-inactive queue has not seen its activate call).  An item START while depth > 0
// is allowed only against a credit: each suspend issued from OUTSIDE the queue's items on a
// serial queue grants one credit (the one item the drainer had already committed to).
#include "hcommon.h"

typedef struct { const char *name; char kind; int pro; const char *thr[3]; } scen;
static const scen SC[] = {
	// (b) racing suspend/resume pairs near the inline-counter boundary
	{ "2x(U R) racing, item queued", 'S', 0, { "aURz", "UR", 0 } },
	{ "2x(U R) racing at depth 62", 'S', 62, { "aURz", "UR", 0 } },
	{ "2x(U R) racing at depth 63", 'S', 63, { "aURz", "UR", 0 } },
	{ "2x(U U R R) racing at depth 62", 'S', 62, { "aUURR", "UURR", 0 } },
	{ "U R vs submitter", 'S', 0, { "URz", "aa", 0 } },
	{ "U z R vs submitter (queue stays suspended across a sleep)", 'S', 0, { "UzR", "aa", 0 } },
	{ "cross-thread suspend with 3 items queued", 'S', 0, { "aaaz", "UzR", 0 } },
	// (c) suspend from inside an item
	{ "item suspends its own serial queue; racing submitter; later resume", 'S', 0, { "xzzR", "aa", 0 } },
	{ "item suspends; second item already queued", 'S', 0, { "xazzR", 0, 0 } },
	{ "barrier item suspends its concurrent queue; racing submitters", 'C', 0, { "XzzR", "aa", 0 } },
	{ "sync item (lock received by hand-off) suspends its queue; the last resume races its completion; a sync caller and an async item wait behind", 'S', 0, { "UazRwR", "Y", "s" } },
	{ "sync item suspends its queue; resume races its completion; async item behind", 'S', 0, { "awR", "Y", 0 } },
	// (d) blocked dispatch_sync released by the last resume
	{ "sync blocked on a suspended queue, released by resume", 'S', 0, { "UzR", "s", 0 } },
	{ "sync + async blocked at depth 2", 'S', 0, { "UUzRzR", "s", "a" } },
	{ "sync blocked on suspended concurrent queue", 'C', 0, { "UzR", "s", 0 } },
	// (e) initially inactive
	{ "inactive queue: async before activate", 'I', 0, { "zV", "a", 0 } },
	{ "inactive queue: sync before activate", 'I', 0, { "zV", "s", 0 } },
	{ "inactive + suspend: activate first, resume later", 'I', 0, { "UVzR", "a", 0 } },
	{ "inactive + suspend: resume first, activate later", 'I', 0, { "URzV", "a", 0 } },
	{ "inactive queue: two submitters race with activate", 'I', 0, { "V", "a", "s" } },
	{ "inactive queue: activate racing a suspend/resume pair from another thread", 'I', 0, { "aV", "UzR", 0 } },
	{ "inactive queue: activate racing two nested suspends from another thread", 'I', 0, { "aV", "UUzRR", 0 } },
	{ "inactive queue: activate racing a resume (suspended before activation)", 'I', 0, { "UaVz", "zR", 0 } },
};
#define NSC ((int)(sizeof(SC) / sizeof(SC[0])))
// (a) sequential nesting depths: N suspends, one async, N-1 resumes, sleep, last resume
static const int DEPTHS[] = { 1, 2, 3, 31, 32, 33, 62, 63, 64, 65, 66, 94, 95, 96, 97, 127, 128, 129, 130 };
#define NDEPTH ((int)(sizeof(DEPTHS) / sizeof(DEPTHS[0])))
// walks crossing the side-count boundaries: up to hi, down to lo, up to hi, down to 0
static const int WALKS[][2] = { { 66, 60 }, { 98, 92 }, { 130, 62 } };
#define NWALK 3

enum { EV_SUSP_RET = EV_USER, EV_SUSP_RET_INNER, EV_RESUME_CALL, EV_ACT_CALL };

static dispatch_queue_t g_q;
static const scen *g_sc;
static int g_ended, g_expected;

static void plain_item(void *ctx) { item_body((int)(intptr_t)ctx); g_ended++; }
static int g_inner_suspended;
static void susp_item(void *ctx)
{
	int id = (int)(intptr_t)ctx;
	vx_ev(EV_START, id, 0);
	dispatch_suspend(g_q);
	vx_ev(EV_SUSP_RET_INNER, id, 0);
	g_inner_suspended = 1;
	vx_point();
	vx_ev(EV_END, id, 0);
	g_ended++;
}
static void warm_fn(void *c) { *(int *)c = 1; }

static void do_script(int t)
{
	const char *s = g_sc->thr[t];
	for (int k = 0; s && s[k]; k++) {
		int id = t * 16 + k + 1;
		void *ctx = (void *)(intptr_t)id;
		switch (s[k]) {
		case 'U': dispatch_suspend(g_q); vx_ev(EV_SUSP_RET, id, 0); break;
		case 'R': vx_ev(EV_RESUME_CALL, id, 0); dispatch_resume(g_q); break;
		case 'V': vx_ev(EV_ACT_CALL, id, 0); dispatch_activate(g_q); break;
		case 'a': vx_ev(EV_CALL, id, 0); dispatch_async_f(g_q, ctx, plain_item); vx_ev(EV_RET, id, 0); break;
		case 's': vx_ev(EV_CALL, id, 0); dispatch_sync_f(g_q, ctx, plain_item); vx_ev(EV_RET, id, 0); break;
		case 'x': vx_ev(EV_CALL, id, 0); dispatch_async_f(g_q, ctx, susp_item); vx_ev(EV_RET, id, 0); break;
		case 'X': vx_ev(EV_CALL, id, 0); dispatch_barrier_async_f(g_q, ctx, susp_item); vx_ev(EV_RET, id, 0); break;
		case 'Y': vx_ev(EV_CALL, id, 0); dispatch_sync_f(g_q, ctx, susp_item); vx_ev(EV_RET, id, 0); break;
		case 'w': { int *a[2] = { &g_inner_suspended, (int *)(intptr_t)1 }; vx_wait_until(pred_int_ge, a); break; }
		case 'z': vx_sleep_ns(1 * MS); break;
		default: vx_fail("bad op");
		}
	}
}
static void actor(void *arg) { do_script((int)(intptr_t)arg); }

static int nvariants(void) { return NSC + NDEPTH + NWALK; }
static void describe(int v, char *b, size_t n)
{
	if (v < NSC) snprintf(b, n, "%s [queue %c, prologue depth %d, threads: %s | %s | %s]", SC[v].name, SC[v].kind, SC[v].pro,
			SC[v].thr[0], SC[v].thr[1] ? SC[v].thr[1] : "-", SC[v].thr[2] ? SC[v].thr[2] : "-");
	else if (v < NSC + NDEPTH) snprintf(b, n, "sequential history: %d nested suspends, async, %d resumes, sleep, last resume", DEPTHS[v - NSC], DEPTHS[v - NSC] - 1);
	else snprintf(b, n, "sequential walk: suspend up to %d, resume down to %d, up to %d again, item queued, resume to 0",
			WALKS[v - NSC - NDEPTH][0], WALKS[v - NSC - NDEPTH][1], WALKS[v - NSC - NDEPTH][0]);
}

static void wait_ended(int n) { int *a[2] = { &g_ended, (int *)(intptr_t)n }; vx_wait_until(pred_int_ge, a); }

static void run(int v)
{
	g_ended = 0; g_inner_suspended = 0;
	vx_set_horizon(12ull * 1000000000ull);
	if (v >= NSC) {
		// sequential histories: default schedule only (no focus window needed, but keep one so
		// that k>=1 explores preemptions of the last resume against the drainer)
		g_q = dispatch_queue_create("vx.susp", NULL);
		int d = 0; dispatch_async_f(g_q, &d, warm_fn); int *a[2] = { &d, (int *)(intptr_t)1 }; vx_wait_until(pred_int_ge, a);
		int depth;
		if (v < NSC + NDEPTH) {
			depth = DEPTHS[v - NSC];
			for (int i = 0; i < depth; i++) { dispatch_suspend(g_q); vx_ev(EV_SUSP_RET, 500 + i, 0); }
		} else {
			int hi = WALKS[v - NSC - NDEPTH][0], lo = WALKS[v - NSC - NDEPTH][1];
			for (int i = 0; i < hi; i++) { dispatch_suspend(g_q); vx_ev(EV_SUSP_RET, 500 + i, 0); }
			for (int i = hi; i > lo; i--) { vx_ev(EV_RESUME_CALL, 700 + i, 0); dispatch_resume(g_q); }
			for (int i = lo; i < hi; i++) { dispatch_suspend(g_q); vx_ev(EV_SUSP_RET, 500 + i, 0); }
			depth = hi;
		}
		vx_ev(EV_CALL, 1, 0); dispatch_async_f(g_q, (void *)(intptr_t)1, plain_item); vx_ev(EV_RET, 1, 0);
		for (int i = depth; i > 1; i--) { vx_ev(EV_RESUME_CALL, 700 + i, 0); dispatch_resume(g_q); }
		vx_sleep_ns(1 * MS);
		vx_focus_begin();
		vx_ev(EV_RESUME_CALL, 701, 0); dispatch_resume(g_q);
		wait_ended(1);
		vx_focus_end();
		return;
	}
	g_sc = &SC[v];
	g_expected = 0;
	for (int t = 0; t < 3; t++) for (const char *s = g_sc->thr[t]; s && *s; s++) if (strchr("asxXY", *s)) g_expected++;
	if (g_sc->kind == 'I') {
		g_q = dispatch_queue_create("vx.susp", dispatch_queue_attr_make_initially_inactive(DISPATCH_QUEUE_SERIAL));
		// warm the pool through another queue
		dispatch_queue_t w = dispatch_queue_create("vx.warm", NULL);
		int d = 0; dispatch_async_f(w, &d, warm_fn); int *a[2] = { &d, (int *)(intptr_t)1 }; vx_wait_until(pred_int_ge, a);
	} else {
		g_q = dispatch_queue_create("vx.susp", g_sc->kind == 'C' ? DISPATCH_QUEUE_CONCURRENT : DISPATCH_QUEUE_SERIAL);
		int d = 0; dispatch_async_f(g_q, &d, warm_fn); int *a[2] = { &d, (int *)(intptr_t)1 }; vx_wait_until(pred_int_ge, a);
	}
	for (int i = 0; i < g_sc->pro; i++) { dispatch_suspend(g_q); vx_ev(EV_SUSP_RET, 500 + i, 0); }
	int th[3];
	vx_focus_begin();
	for (int t = 1; t < 3; t++) if (g_sc->thr[t]) th[t] = vx_thread(actor, (void *)(intptr_t)t);
	do_script(0);
	vx_focus_end();
	// the prologue's resumes come after the scripts of the main thread; sync callers of other
	// threads may still be blocked, so join only afterwards
	for (int i = g_sc->pro; i > 0; i--) { vx_ev(EV_RESUME_CALL, 700 + i, 0); dispatch_resume(g_q); }
	for (int t = 1; t < 3; t++) if (g_sc->thr[t]) vx_join(th[t]);
	wait_ended(g_expected);
}

static int check(int v, const vx_log *l, char *msg, size_t len)
{
	int serial = v >= NSC || SC[v].kind != 'C';
	int depth = (v < NSC && SC[v].kind == 'I') ? 1 : 0, credit = 0, starts = 0;
	for (uint32_t i = 0; i < l->n; i++) {
		const vx_event *e = &l->ev[i];
		switch (e->kind) {
		case EV_SUSP_RET: depth++; credit += serial ? 1 : 8; /* the property bounds the committed items only for serial queues */ break;
		case EV_SUSP_RET_INNER: depth++; break;
		case EV_RESUME_CALL: case EV_ACT_CALL: depth--; if (depth == 0) credit = 0; break;
		case EV_START:
			starts++;
			if (depth > 0) {
				if (credit > 0) credit--;
				else FAILF(msg, len, "item %d started (event #%u) while the queue was %s (depth %d) and no cross-thread suspend could account for it",
						e->id, e->seq, (v < NSC && SC[v].kind == 'I' && ev_first(l, EV_ACT_CALL, -1) < 0) ? "inactive/suspended" : "suspended", depth);
			}
			break;
		}
	}
	int want = v >= NSC ? 1 : 0;
	if (v < NSC) for (int t = 0; t < 3; t++) for (const char *s = SC[v].thr[t]; s && *s; s++) if (strchr("asxXY", *s)) want++;
	int ends = 0;
	for (uint32_t i = 0; i < l->n; i++) if (l->ev[i].kind == EV_END) ends++;
	if (starts != want || ends != want) FAILF(msg, len, "%d items were submitted but %d started and %d finished after the last resume", want, starts, ends);
	return 0;
}

const vx_harness h_suspend = { "suspend", "C06", nvariants, describe, run, check, 0, 0 };
