// C07 — dispatch groups: wait/notify fire exactly when the count returns to zero
//
// program: "[k;] ops | ops [| ops]"   k = enters performed before the threads start
//   E enter   L leave (of an enter made earlier by the same thread)   l leave of one of the k initial enters
//   g group_async_f(serial queue)   G group_async_f(global queue)   n notify_f(serial queue)
//   W wait FOREVER   T wait 1 ms   N wait NOW
#include "hcommon.h"

static const char *const PROGS[] = {
	// pure enter / leave / wait
	"1; W | l", "1; T | l", "1; N | l", "1; W | W | l", "2; W | l | l", "2; l W | l",
	"E L | W", "E L | T", "E L E L | W", "E L | E L | W", "E L | E L | T", "1; l E L | W", "1; W E L | l",
	"1; T W | l", "1; W | l E L", "1; T | l E L",
	// notify
	"1; n | l", "1; n n | l", "1; l | n", "E L | n", "1; n | l | W", "1; n W | l", "1; n | n | l",
	"1; n l E L", "1; l n | E L", "1; n | l E L", "1; l | n | T", "2; n | l | l", "1; n T | l",
	// group_async
	"g | W", "g | n", "g g | W", "g | n | W", "g n | g", "g W | g", "g | T", "G | W", "G | n", "g | G | W",
	"g n W", "1; g | l | W", "1; g n | l",
	// re-entry inside the last leaver's window (three threads): a waiter / notifier of the NEW generation must not be forgotten
	"1; l | E L | W", "1; l | E L | T", "1; W | l | E L", "2; l l | E L | W",
	"1; n l | E L | W",
	// a notify registered by a thread that has re-entered the group while the last leaver is still waking the previous generation
	"1; n l | E n L",
	"1; n n l | E n L",
	"1; n l | E n L | W",
	"1; n l | E n T L",         // the re-entering thread blocks (1 ms timed wait on its own entry) before it leaves: a notify run early is seen at k<=1
	"1; n n l | E n T L",
	// re-entry inside the last leaver's window with the re-entering thread blocked there: a forgotten waiter of the new generation shows at k<=1
	"1; n l | E T L | W",
	"1; l | E T L | W",
	// a group member that starts work in another group (the implied leave of each group_async must go to its own group)
	"x", "x | W", "x n | g", "x x",
	0
};

#define MAXOPS 6
typedef struct { int init, nthr, nops[3]; char ops[3][MAXOPS]; } gprog;
static gprog g_p;
static dispatch_group_t g_grp, g_grp2;
static dispatch_queue_t g_sq, g_gq, g_sq2;
static int g_cb_done, g_cb_expected;

enum { EV_ENTER_RET = EV_USER, EV_LEAVE_CALL, EV_WAIT_CALL, EV_WAIT_RET, EV_NOTIFY_CALL, EV_NOTIFY_START, EV_GASYNC_RET, EV_GITEM_END, EV_INNER_START, EV_INNER_END, EV_WAIT2_RET };

static int parse(const char *s, gprog *p)
{
	memset(p, 0, sizeof *p);
	const char *semi = strchr(s, ';');
	if (semi) { p->init = atoi(s); s = semi + 1; }
	p->nthr = 1;
	for (; *s; s++) {
		if (*s == ' ') continue;
		if (*s == '|') { p->nthr++; continue; }
		int t = p->nthr - 1;
		if (t >= 3 || p->nops[t] >= MAXOPS) return -1;
		p->ops[t][p->nops[t]++] = *s;
	}
	return 0;
}

static void notify_fn(void *ctx) { vx_ev(EV_NOTIFY_START, (int)(intptr_t)ctx, 0); vx_point(); g_cb_done++; }
static void gitem_fn(void *ctx) { vx_ev(EV_START, (int)(intptr_t)ctx, 0); vx_point(); vx_ev(EV_GITEM_END, (int)(intptr_t)ctx, 0); g_cb_done++; }
static void inner_fn(void *ctx) { vx_ev(EV_INNER_START, (int)(intptr_t)ctx, 0); vx_sleep_ns(1 * MS); vx_ev(EV_INNER_END, (int)(intptr_t)ctx, 0); g_cb_done++; }
static void outer_fn(void *ctx)
{
	// a member of the group that itself starts work in ANOTHER group: each group must get exactly its own implied leave
	vx_ev(EV_START, (int)(intptr_t)ctx, 0);
	dispatch_group_async_f(g_grp2, g_sq2, ctx, inner_fn);
	vx_point();
	vx_ev(EV_GITEM_END, (int)(intptr_t)ctx, 0);
	g_cb_done++;
}
static void warm_fn(void *ctx) { *(int *)ctx = 1; }

static void actor(void *arg)
{
	int t = (int)(intptr_t)arg;
	for (int k = 0; k < g_p.nops[t]; k++) {
		int id = t * 16 + k;
		void *ctx = (void *)(intptr_t)id;
		char o = g_p.ops[t][k];
		switch (o) {
		case 'E': dispatch_group_enter(g_grp); vx_ev(EV_ENTER_RET, id, 0); break;
		case 'L': case 'l': vx_ev(EV_LEAVE_CALL, id, 0); dispatch_group_leave(g_grp); break;
		case 'g': case 'G':
			dispatch_group_async_f(g_grp, o == 'g' ? g_sq : g_gq, ctx, gitem_fn);
			vx_ev(EV_GASYNC_RET, id, 0); break;
		case 'x':
			dispatch_group_async_f(g_grp, g_sq, ctx, outer_fn);
			vx_ev(EV_GASYNC_RET, id, 0); break;
		case 'n':
			vx_ev(EV_NOTIFY_CALL, id, 0);
			dispatch_group_notify_f(g_grp, g_sq, ctx, notify_fn); break;
		case 'W': case 'T': case 'N': {
			dispatch_time_t to = o == 'W' ? DISPATCH_TIME_FOREVER : o == 'N' ? DISPATCH_TIME_NOW : dispatch_time(DISPATCH_TIME_NOW, 1 * MS);
			vx_ev(EV_WAIT_CALL, id, o);
			intptr_t r = dispatch_group_wait(g_grp, to);
			vx_ev(EV_WAIT_RET, id, r != 0);
			break; }
		default: vx_fail("bad op %c", o);
		}
	}
}

static int nvariants(void) { int n = 0; while (PROGS[n]) n++; return n; }
static void describe(int v, char *b, size_t n)
{
	snprintf(b, n, "group program '%s' (k;=initial enters, E/L enter/leave, l=leave of an initial enter, g/G=group_async serial/global, n=notify, W/T/N=wait forever/1ms/now, x=group_async of an item that group_asyncs a 1 ms item into a second group)", PROGS[v]);
}

static void run(int v)
{
	if (parse(PROGS[v], &g_p)) vx_fail("parse");
	vx_set_horizon(12ull * 1000000000ull);
	g_grp = dispatch_group_create();
	g_sq = dispatch_queue_create("vx.grp", NULL);
	g_gq = dispatch_get_global_queue(0, 0);
	g_cb_done = g_cb_expected = 0;
	int needq = 0, needg = 0, has_x = 0;
	g_grp2 = dispatch_group_create(); g_sq2 = dispatch_queue_create("vx.grp2", NULL);
	for (int t = 0; t < g_p.nthr; t++) for (int k = 0; k < g_p.nops[t]; k++) {
		char o = g_p.ops[t][k];
		if (o == 'g' || o == 'G' || o == 'n') { g_cb_expected++; needq = 1; }
		if (o == 'x') { g_cb_expected += 2; needq = 1; has_x = 1; }
		if (o == 'G') needg = 1;
	}
	if (needq) { int d = 0; dispatch_async_f(g_sq, &d, warm_fn); int *a[2] = { &d, (int *)(intptr_t)1 }; vx_wait_until(pred_int_ge, a); }
	if (has_x) { int d = 0; dispatch_async_f(g_sq2, &d, warm_fn); int *a[2] = { &d, (int *)(intptr_t)1 }; vx_wait_until(pred_int_ge, a); }
	if (needg) { int d = 0; dispatch_async_f(g_gq, &d, warm_fn); int *a[2] = { &d, (int *)(intptr_t)1 }; vx_wait_until(pred_int_ge, a); }
	for (int i = 0; i < g_p.init; i++) { dispatch_group_enter(g_grp); vx_ev(EV_ENTER_RET, 900 + i, 0); }
	int th[3];
	vx_focus_begin();
	for (int t = 1; t < g_p.nthr; t++) th[t] = vx_thread(actor, (void *)(intptr_t)t);
	actor((void *)0);
	for (int t = 1; t < g_p.nthr; t++) vx_join(th[t]);
	if (has_x) {
		// once the first group is empty every outer item has run, so every inner item has been entered into the second group:
		// from here on a wait on the second group may return only after the inner items have finished
		vx_ev(EV_WAIT_CALL, 997, 'W');
		intptr_t r1 = dispatch_group_wait(g_grp, DISPATCH_TIME_FOREVER);
		vx_ev(EV_WAIT_RET, 997, r1 != 0);
		intptr_t r2 = dispatch_group_wait(g_grp2, DISPATCH_TIME_FOREVER);
		vx_ev(EV_WAIT2_RET, 0, r2 != 0);
	}
	int *a[2] = { &g_cb_done, (int *)(intptr_t)g_cb_expected };
	vx_wait_until(pred_int_ge, a);
	vx_focus_end();
	// the group must become empty (group_async leaves after the item body returned) and be reusable
	vx_ev(EV_WAIT_CALL, 998, 'W');
	intptr_t r0 = dispatch_group_wait(g_grp, DISPATCH_TIME_FOREVER);
	vx_ev(EV_WAIT_RET, 998, r0 != 0);
	vx_ev(EV_WAIT_CALL, 999, 'N');
	intptr_t r = dispatch_group_wait(g_grp, DISPATCH_TIME_NOW);
	vx_ev(EV_WAIT_RET, 999, r != 0);
}

// is there an index i in [from,to] at which (enters returned so far) <= (leaves called so far)?
static int balanced_somewhere(const vx_log *l, int from, int to)
{
	int er = 0, lc = 0;
	for (int i = 0; i <= to && i < (int)l->n; i++) {
		int k = l->ev[i].kind;
		if (k == EV_ENTER_RET || k == EV_GASYNC_RET) er++;
		if (k == EV_LEAVE_CALL || k == EV_GITEM_END) lc++;
		if (i >= from && er <= lc) return 1;
	}
	return 0;
}

static int check(int v, const vx_log *l, char *msg, size_t len)
{
	gprog p; parse(PROGS[v], &p);
	for (uint32_t i = 0; i < l->n; i++) {
		const vx_event *e = &l->ev[i];
		if (e->kind == EV_WAIT_RET) {
			int c = ev_first(l, EV_WAIT_CALL, e->id);
			char kind = (char)l->ev[c].arg;
			if (e->arg == 0) {
				if (!balanced_somewhere(l, c, (int)i))
					FAILF(msg, len, "dispatch_group_wait (op %d) returned 0 over events [#%d,#%u] although at every moment of the call some returned enter had not been matched by a leave call", e->id, c, i);
			} else {
				if (kind == 'W') FAILF(msg, len, "dispatch_group_wait(FOREVER) (op %d) returned non-zero", e->id);
				uint64_t need = kind == 'T' ? 1 * MS : 0;
				if (e->vt - l->ev[c].vt < need)
					FAILF(msg, len, "dispatch_group_wait (op %d) timed out after %llu ns, before its %llu ns timeout", e->id,
							(unsigned long long)(e->vt - l->ev[c].vt), (unsigned long long)need);
				if (e->id == 999) FAILF(msg, len, "group is not empty after every enter was matched by a leave (final wait(NOW) failed)");
			}
		}
		if (e->kind == EV_WAIT2_RET) {
			for (uint32_t j = i + 1; j < l->n; j++) if (l->ev[j].kind == EV_INNER_END || l->ev[j].kind == EV_INNER_START)
				FAILF(msg, len, "dispatch_group_wait on the second group returned (event #%u) while its group_async item had not finished (event #%u)", i, j);
			if (e->arg) FAILF(msg, len, "dispatch_group_wait(FOREVER) on the second group returned non-zero");
		}
		if (e->kind == EV_NOTIFY_START) {
			int c = ev_first(l, EV_NOTIFY_CALL, e->id);
			if (c < 0 || c > (int)i) FAILF(msg, len, "notify block %d started before it was registered", e->id);
			if (ev_count(l, EV_NOTIFY_START, e->id) != 1) FAILF(msg, len, "notify block %d was submitted %d times", e->id, ev_count(l, EV_NOTIFY_START, e->id));
			if (!balanced_somewhere(l, c, (int)i)) {
				// Told apart because one of the two is a recorded defect of the pinned tree (known finding F17): a notify registered
				// while the last leaver of the previous generation is between its decrement and its snapshot of the notify list is
				// fired with that generation.  In that history every block of that wake-up starts after this registration; if another
				// notify block had ALREADY started when this one was registered, the list was still being consumed after its snapshot.
				int earlier = -1;
				for (int j = 0; j < c; j++) if (l->ev[j].kind == EV_NOTIFY_START) earlier = l->ev[j].id;
				if (earlier >= 0)
					FAILF(msg, len, "notify block %d started (event #%u) although between its registration (event #%d) and its start the group was never empty; notify block %d of the wake-up that fired it had already started when it was registered", e->id, i, c, earlier);
				FAILF(msg, len, "notify block %d started (event #%u) although between its registration (event #%d) and its start the group was never empty", e->id, i, c);
			}
		}
	}
	for (int t = 0; t < p.nthr; t++) for (int k = 0; k < p.nops[t]; k++) {
		int id = t * 16 + k; char o = p.ops[t][k];
		if (o == 'n' && ev_count(l, EV_NOTIFY_START, id) != 1) FAILF(msg, len, "notify block %d ran %d times", id, ev_count(l, EV_NOTIFY_START, id));
		if ((o == 'g' || o == 'G') && ev_count(l, EV_GITEM_END, id) != 1) FAILF(msg, len, "group_async item %d ran %d times", id, ev_count(l, EV_GITEM_END, id));
		if ((o == 'W' || o == 'T' || o == 'N') && ev_count(l, EV_WAIT_RET, id) != 1) FAILF(msg, len, "wait %d did not return", id);
	}
	return 0;
}

const vx_harness h_group = { "group", "C07", nvariants, describe, run, check, 1, 0 };
