// explore.c — parent side of dsched: deviation-bounded exhaustive exploration
// of one (harness, variant) by forking one child per schedule.
//
// A schedule is identified by the sparse list of non-default choices it takes
// (the "prefix"); after the prefix every choice is 0.  Work is kept in one
// bucket per cost so that all schedules with c deviations are run before any
// with c+1 (the first counterexample has the fewest deviations).
#define _GNU_SOURCE
#include <errno.h>
#include <fcntl.h>
#include <poll.h>
#include <signal.h>
#include <sys/socket.h>
#include <stdio.h>
#include <stdlib.h>
#include <string.h>
#include <sys/mman.h>
#include <sys/stat.h>
#include <sys/wait.h>
#include <time.h>
#include <unistd.h>
#include "vx_int.h"

typedef struct work {
	uint16_t n;
	uint8_t cost;
	uint8_t recheck;        // 1 = determinism re-run of a previous execution
	uint64_t want_trace, want_outcome; int want_verdict; uint32_t want_npoints;
	vx_prefix_ent ents[];
} work;

typedef struct bucket { work **v; size_t n, cap; } bucket;

#define MAXK 8
#define MAXJ 64

static bucket g_b[MAXK + 1];
static bucket g_rq;   // determinism re-runs, served first
static int g_K = 1, g_J = 8, g_mode_db = 0;
static double g_deadline_s = 1e9, g_child_timeout_s = 20;
static uint64_t g_maxexec = UINT64_MAX, g_stepcap = 2000000;
static const vx_harness *g_h;
static int g_variant;
static const char *g_replay_dir = "/verif/out/replay";
static const char *g_tmp_dir = "/verif/out/tmp";

static struct slot {
	pid_t pid;      // non-zero while an execution is in flight in this slot
	pid_t worker;   // forker process serving this slot
	int sock;       // parent side of the socketpair to the forker
	work *w; vx_result *res; double t0; char errpath[256];
} g_slot[MAXJ];

struct reply { int status; int timedout; };

// statistics
static uint64_t st_exec, st_exec_by_cost[MAXK + 1], st_steps, st_points, st_newpoints,
	st_violations, st_inconclusive, st_rechecks, st_maxthreads, st_maxpoints, st_pruned;
static uint64_t *g_outcomes; static size_t g_outcap, g_outn;
static int g_completed_bound = -1, g_hit_cap;
static char g_first_violation[4096];
static char g_first_replay[512];
static int g_keep_going;
#define MAXVIOL 12
static struct { char what[1024]; char replay[300]; uint64_t count; } g_viol[MAXVIOL];
static int g_nviol;
static char g_samples[3][2048]; static int g_nsamples;

static double now_s(void)
{
	struct timespec ts; clock_gettime(CLOCK_MONOTONIC, &ts);
	return (double)ts.tv_sec + (double)ts.tv_nsec / 1e9;
}

static void outcome_add(uint64_t h)
{
	if (h == 0) h = 1;
	if ((g_outn + 1) * 2 > g_outcap) {
		size_t nc = g_outcap ? g_outcap * 2 : 1024;
		uint64_t *nv = calloc(nc, 8);
		for (size_t i = 0; i < g_outcap; i++) if (g_outcomes[i]) {
			size_t j = g_outcomes[i] & (nc - 1);
			while (nv[j]) j = (j + 1) & (nc - 1);
			nv[j] = g_outcomes[i];
		}
		free(g_outcomes); g_outcomes = nv; g_outcap = nc;
	}
	size_t j = h & (g_outcap - 1);
	while (g_outcomes[j]) { if (g_outcomes[j] == h) return; j = (j + 1) & (g_outcap - 1); }
	g_outcomes[j] = h; g_outn++;
}

static void push(work *w)
{
	bucket *b = &g_b[w->cost];
	if (b->n == b->cap) { b->cap = b->cap ? b->cap * 2 : 256; b->v = realloc(b->v, b->cap * sizeof(work *)); }
	b->v[b->n++] = w;
}

static work *pop(int *level)
{
	for (int c = 0; c <= g_K; c++) if (g_b[c].n) { *level = c; return g_b[c].v[--g_b[c].n]; }
	return NULL;
}

static int lowest_pending_level(void)
{
	int lo = MAXK + 1;
	for (int c = 0; c <= g_K; c++) if (g_b[c].n) { lo = c; break; }
	for (int s = 0; s < g_J; s++) if (g_slot[s].pid && !g_slot[s].w->recheck && g_slot[s].w->cost < lo) lo = g_slot[s].w->cost;
	return lo;
}

static void prefix_to_str(const work *w, char *buf, size_t len)
{
	size_t o = 0; buf[0] = 0;
	for (int i = 0; i < w->n && o + 48 < len; i++)
		o += (size_t)snprintf(buf + o, len - o, "%s%u:%u:%u:%u:%u", i ? "," : "", w->ents[i].pos,
				w->ents[i].choice, w->ents[i].total, w->ents[i].hash, w->ents[i].cost);
}

static void json_escape(const char *s, char *out, size_t len)
{
	size_t o = 0;
	for (; *s && o + 8 < len; s++) {
		unsigned char c = (unsigned char)*s;
		if (c == '"' || c == '\\') { out[o++] = '\\'; out[o++] = (char)c; }
		else if (c == '\n') { out[o++] = '\\'; out[o++] = 'n'; }
		else if (c < 0x20) { o += (size_t)snprintf(out + o, len - o, "\\u%04x", c); }
		else out[o++] = (char)c;
	}
	out[o] = 0;
}

// Forker process: one per slot, forked once from the explorer (which never
// touches libdispatch beyond its constructor).  It forks one grandchild per
// execution, so forks proceed in parallel across slots.
static void forker_loop(int s, int sock) __attribute__((noreturn));
static void forker_loop(int s, int sock)
{
	struct slot *sl = &g_slot[s];
	sigset_t m; sigemptyset(&m); sigaddset(&m, SIGCHLD);
	for (;;) {
		char cmd;
		ssize_t n = read(sock, &cmd, 1);
		if (n <= 0) _exit(0);
		pid_t pid = fork();
		if (pid < 0) _exit(3);
		if (pid == 0) {
			close(sock);
			int fd = open(sl->errpath, O_WRONLY | O_CREAT | O_TRUNC, 0644);
			if (fd >= 0) { dup2(fd, 2); close(fd); }
			int nul = open("/dev/null", O_WRONLY);
			if (nul >= 0) { dup2(nul, 1); close(nul); }
			sigprocmask(SIG_UNBLOCK, &m, NULL);
			vx_child_main(g_h, g_variant, sl->res, g_stepcap);
		}
		struct reply rp = { 0, 0 };
		double t0 = now_s();
		for (;;) {
			int status; pid_t r = waitpid(pid, &status, WNOHANG);
			if (r == pid) { rp.status = status; break; }
			if (now_s() - t0 > g_child_timeout_s) {
				kill(pid, SIGKILL); waitpid(pid, &status, 0);
				rp.status = status; rp.timedout = 1; break;
			}
			struct timespec to = { 0, 50 * 1000 * 1000 };
			sigtimedwait(&m, NULL, &to);
		}
		if (write(sock, &rp, sizeof rp) != sizeof rp) _exit(0);
	}
}

static void start_forkers(void)
{
	for (int s = 0; s < g_J; s++) {
		int sv[2];
		if (socketpair(AF_UNIX, SOCK_STREAM, 0, sv)) { perror("socketpair"); exit(2); }
		pid_t pid = fork();
		if (pid < 0) { perror("fork"); exit(2); }
		if (pid == 0) {
			close(sv[0]);
			for (int j = 0; j < s; j++) close(g_slot[j].sock);
			forker_loop(s, sv[1]);
		}
		close(sv[1]);
		g_slot[s].sock = sv[0]; g_slot[s].worker = pid;
	}
}

static void stop_forkers(void)
{
	for (int s = 0; s < g_J; s++) if (g_slot[s].worker) { close(g_slot[s].sock); }
	for (int s = 0; s < g_J; s++) if (g_slot[s].worker) { int st; waitpid(g_slot[s].worker, &st, 0); }
}

static void launch(int s, work *w)
{
	struct slot *sl = &g_slot[s];
	vx_result *r = sl->res;
	r->plen = w->n;
	memcpy(r->prefix, w->ents, w->n * sizeof(vx_prefix_ent));
	r->verdict = V_NONE; r->npoints = 0; r->msg[0] = 0; r->expect_crash = 0; r->trace = 0;
	r->log.n = 0; r->nsteps = 0; r->trace_hash = 0; r->outcome_hash = 0; r->maxthreads = 0;
	sl->w = w; sl->t0 = now_s();
	char cmd = 'r';
	if (write(sl->sock, &cmd, 1) != 1) { perror("forker write"); exit(2); }
	sl->pid = 1;
}

static int read_err(const char *path, char *buf, size_t len)
{
	buf[0] = 0;
	struct stat sb;
	if (stat(path, &sb) || sb.st_size == 0) return 0;
	int fd = open(path, O_RDONLY);
	if (fd < 0) return 0;
	ssize_t n = read(fd, buf, len - 1);
	close(fd);
	if (n < 0) n = 0;
	buf[n] = 0;
	return (int)n;
}

enum { RS_OK, RS_VIOLATION, RS_INCONCLUSIVE, RS_ENGINE };

static int classify(struct slot *sl, int status, int timedout, char *what, size_t len)
{
	vx_result *r = sl->res;
	static char err[16384];
	int nerr = read_err(sl->errpath, err, sizeof err);
	if (timedout) { snprintf(what, len, "HANG: child exceeded %.0f s real time (unmodelled blocking call?)", g_child_timeout_s); return RS_INCONCLUSIVE; }
	int v = r->verdict;
	if (v == V_NONDET || v == V_ENGINE) { snprintf(what, len, "ENGINE: %s", r->msg); return RS_ENGINE; }
	if (v == V_STEPCAP) { snprintf(what, len, "STEPCAP: %s", r->msg); return RS_INCONCLUSIVE; }
	if (v == V_STUCK) { snprintf(what, len, "STUCK: %s", r->msg); return RS_VIOLATION; }
	if (v == V_ORACLE) { snprintf(what, len, "ORACLE: %s", r->msg); return RS_VIOLATION; }
	if (v == V_NONE) {
		int sig = WIFSIGNALED(status) ? WTERMSIG(status) : 0;
		int code = WIFEXITED(status) ? WEXITSTATUS(status) : -1;
		int trap = (sig == SIGILL || sig == SIGTRAP || sig == SIGABRT);
		int asan = (code == 66) || (nerr && strstr(err, "AddressSanitizer"));
		if (r->expect_crash && trap && !asan) return RS_OK;
		char first[400]; first[0] = 0;
		if (nerr) {
			const char *p = strstr(err, "ERROR: AddressSanitizer");
			if (!p) p = strstr(err, "BUG IN");
			if (!p) p = err;
			snprintf(first, sizeof first, "%.*s", (int)strcspn(p, "\n"), p);
		}
		snprintf(what, len, "%s: child died (signal %d, exit %d) %s", asan ? "ASAN" : "CRASH", sig, code, first);
		return RS_VIOLATION;
	}
	// V_OK: secondary oracle on the captured log
	if (nerr && (strstr(err, "BUG IN LIBDISPATCH") || strstr(err, "BUG IN CLIENT"))) {
		const char *p = strstr(err, "BUG IN");
		snprintf(what, len, "LIBLOG: %.*s", (int)strcspn(p, "\n"), p);
		return RS_VIOLATION;
	}
	return RS_OK;
}

static void write_replay(const work *w, const vx_result *r, const char *what, char *path, size_t plen)
{
	static int seq;
	mkdir("/verif/out", 0755); mkdir(g_replay_dir, 0755);
	snprintf(path, plen, "%s/%s-%s-v%d-%d.json", g_replay_dir, g_h->property, g_h->name, g_variant, seq++);
	FILE *f = fopen(path, "w");
	if (!f) return;
	char pre[8192], esc[4096], desc[512], desce[1024];
	prefix_to_str(w, pre, sizeof pre);
	json_escape(what, esc, sizeof esc);
	desc[0] = 0; if (g_h->describe) g_h->describe(g_variant, desc, sizeof desc);
	json_escape(desc, desce, sizeof desce);
	const char *nc = getenv("VX_NCPU");
	fprintf(f, "{\n \"property\": \"%s\",\n \"harness\": \"%s\",\n \"variant\": %d,\n \"variant_desc\": \"%s\",\n"
			" \"ncpu\": %d,\n \"cost\": %d,\n \"prefix_flat\": \"%s\",\n \"what\": \"%s\",\n \"events\": [",
			g_h->property, g_h->name, g_variant, desce, nc ? atoi(nc) : 2, w->cost, pre, esc);
	for (uint32_t i = 0; i < r->log.n; i++) {
		const vx_event *e = &r->log.ev[i];
		fprintf(f, "%s\n  [%u, %u, %u, %d, %lld, %llu]", i ? "," : "", e->seq, e->thread, e->kind, e->id,
				(long long)e->arg, (unsigned long long)e->vt);
	}
	fprintf(f, "\n ],\n \"events_format\": \"[seq, thread, kind, id, arg, virtual_ns]\"\n}\n");
	fclose(f);
}

static void expand(const work *w, const vx_result *r)
{
	uint32_t start = w->n ? w->ents[w->n - 1].pos + 1 : 0;
	for (uint32_t i = start; i < r->npoints; i++) {
		const vx_point_rec *p = &r->pts[i];
		for (int alt = 1; alt < p->total; alt++) {
			int c;
			if (g_mode_db) c = 1;
			else c = (alt < p->nthr) ? (p->self_en ? 1 : 0) : 1;
			if (w->cost + c > g_K) { st_pruned++; continue; }
			if (w->n + 1 > VX_MAXPREFIX) { g_hit_cap = 1; continue; }
			work *nw = malloc(sizeof(work) + (size_t)(w->n + 1) * sizeof(vx_prefix_ent));
			memset(nw, 0, sizeof(work));
			nw->n = (uint16_t)(w->n + 1); nw->cost = (uint8_t)(w->cost + c);
			memcpy(nw->ents, w->ents, w->n * sizeof(vx_prefix_ent));
			vx_prefix_ent *e = &nw->ents[w->n];
			e->pos = i; e->hash = p->hash; e->choice = (uint8_t)alt; e->total = p->total; e->cost = (uint8_t)c; e->pad = 0;
			push(nw);
		}
	}
}

static int g_rc = 0;

static void finish_slot(int s, int status, int timedout)
{
	struct slot *sl = &g_slot[s];
	work *w = sl->w;
	vx_result *r = sl->res;
	char what[4096]; what[0] = 0;
	int cls = classify(sl, status, timedout, what, sizeof what);
	sl->pid = 0;

	if (w->recheck) {
		st_rechecks++;
		int same = (r->trace_hash == w->want_trace && r->outcome_hash == w->want_outcome &&
				r->verdict == w->want_verdict && r->npoints == w->want_npoints);
		if (!same && !(w->want_verdict == V_NONE && r->verdict == V_NONE)) {
			printf("NONDETERMINISM harness=%s variant=%d: the same schedule produced trace %016llx/%u pts verdict %d, "
					"then %016llx/%u pts verdict %d\n", g_h->name, g_variant,
					(unsigned long long)w->want_trace, w->want_npoints, w->want_verdict,
					(unsigned long long)r->trace_hash, r->npoints, r->verdict);
			g_rc = 2;
		}
		free(w);
		return;
	}

	st_exec++; st_exec_by_cost[w->cost]++;
	st_steps += r->nsteps; st_points += r->npoints;
	uint32_t start = w->n ? w->ents[w->n - 1].pos + 1 : 0;
	if (r->npoints > start) st_newpoints += r->npoints - start;
	if (r->maxthreads > st_maxthreads) st_maxthreads = r->maxthreads;
	if (r->npoints > st_maxpoints) st_maxpoints = r->npoints;
	outcome_add(r->outcome_hash ^ ((uint64_t)cls << 60));
	if (getenv("VX_DUMP_EXEC")) {   // debugging aid: one line per execution with its event log
		char pre[1024]; prefix_to_str(w, pre, sizeof pre);
		fprintf(stderr, "EXEC cost=%d npoints=%u prefix=[%s] :", w->cost, r->npoints, pre);
		for (uint32_t i = 0; i < r->log.n; i++) fprintf(stderr, " T%u/%u:%d:%lld", r->log.ev[i].thread, r->log.ev[i].kind, r->log.ev[i].id, (long long)r->log.ev[i].arg);
		fprintf(stderr, "\n");
	}

	if (g_nsamples < 3 && (st_exec == 1 || w->cost == g_K || st_exec % 97 == 0)) {
		char pre[1024]; prefix_to_str(w, pre, sizeof pre);
		snprintf(g_samples[g_nsamples++], sizeof g_samples[0],
				"{\"deviations\": %d, \"nondefault_choices(pos:choice:of:hash:cost)\": \"%s\", \"choice_points\": %u, \"steps\": %llu, \"events\": %u, \"verdict\": \"%s\"}",
				w->cost, pre, r->npoints, (unsigned long long)r->nsteps, r->log.n, cls == RS_OK ? "ok" : "not-ok");
	}

	int want_recheck = (st_exec == 1 || st_exec % 256 == 0);
	if (cls == RS_ENGINE) {
		printf("ENGINE-ERROR harness=%s variant=%d: %s\n", g_h->name, g_variant, what);
		g_rc = 2;
	} else if (cls == RS_INCONCLUSIVE) {
		st_inconclusive++;
		if (st_inconclusive <= 3) printf("INCONCLUSIVE harness=%s variant=%d: %s\n", g_h->name, g_variant, what);
	} else if (cls == RS_VIOLATION) {
		st_violations++;
		// distinct violation messages (digits folded so that event numbers do not split classes)
		char norm[1024]; size_t o = 0;
		for (const char *c = what; *c && o + 1 < sizeof norm; c++) {
			if (*c >= '0' && *c <= '9') { if (o && norm[o - 1] == '#') continue; norm[o++] = '#'; }
			else norm[o++] = *c;
		}
		norm[o] = 0;
		int known = -1;
		for (int i = 0; i < g_nviol; i++) if (!strcmp(g_viol[i].what + 512, norm)) known = i;
		if (known >= 0) g_viol[known].count++;
		else if (g_nviol < MAXVIOL) {
			want_recheck = 1;
			snprintf(g_viol[g_nviol].what, 512, "%s", what);
			snprintf(g_viol[g_nviol].what + 512, 512, "%s", norm);
			write_replay(w, r, what, g_viol[g_nviol].replay, sizeof g_viol[g_nviol].replay);
			char cmd[1024]; snprintf(cmd, sizeof cmd, "cp %s %s.stderr 2>/dev/null", sl->errpath, g_viol[g_nviol].replay);
			if (system(cmd)) { }
			g_viol[g_nviol].count = 1;
			if (g_nviol == 0) {
				snprintf(g_first_replay, sizeof g_first_replay, "%s", g_viol[0].replay);
				snprintf(g_first_violation, sizeof g_first_violation, "%s", what);
			}
			g_nviol++;
		}
	}
	if (cls == RS_OK || cls == RS_VIOLATION) {
		if (cls == RS_OK) expand(w, r);
	}
	if (want_recheck && !timedout) {
		work *rw = malloc(sizeof(work) + (size_t)w->n * sizeof(vx_prefix_ent));
		memcpy(rw, w, sizeof(work) + (size_t)w->n * sizeof(vx_prefix_ent));
		rw->recheck = 1; rw->want_trace = r->trace_hash; rw->want_outcome = r->outcome_hash;
		rw->want_verdict = r->verdict; rw->want_npoints = r->npoints;
		if (g_rq.n == g_rq.cap) { g_rq.cap = g_rq.cap ? g_rq.cap * 2 : 16; g_rq.v = realloc(g_rq.v, g_rq.cap * sizeof(work *)); }
		g_rq.v[g_rq.n++] = rw;
	}
	free(w);
}

static int parse_prefix(const char *flat, work *w)
{
	w->n = 0; w->cost = 0;
	const char *p = flat;
	while (*p) {
		unsigned pos, ch, tot, hash, cost;
		int used = 0;
		if (sscanf(p, "%u:%u:%u:%u:%u%n", &pos, &ch, &tot, &hash, &cost, &used) != 5) return -1;
		vx_prefix_ent *e = &w->ents[w->n++];
		e->pos = pos; e->choice = (uint8_t)ch; e->total = (uint8_t)tot; e->hash = hash; e->cost = (uint8_t)cost; e->pad = 0;
		w->cost = (uint8_t)(w->cost + cost);
		p += used;
		if (*p == ',') p++;
	}
	return 0;
}

static const vx_harness *find_harness(const char *name)
{
	for (int i = 0; vx_harnesses[i]; i++) if (!strcmp(vx_harnesses[i]->name, name)) return vx_harnesses[i];
	return NULL;
}

static char *slurp(const char *path)
{
	FILE *f = fopen(path, "r");
	if (!f) return NULL;
	fseek(f, 0, SEEK_END); long n = ftell(f); fseek(f, 0, SEEK_SET);
	char *b = malloc((size_t)n + 1);
	if (fread(b, 1, (size_t)n, f) != (size_t)n) { }
	b[n] = 0; fclose(f);
	return b;
}

static int json_str(const char *doc, const char *key, char *out, size_t len)
{
	char pat[64]; snprintf(pat, sizeof pat, "\"%s\": \"", key);
	const char *p = strstr(doc, pat);
	if (!p) return -1;
	p += strlen(pat);
	size_t o = 0;
	while (*p && *p != '"' && o + 1 < len) out[o++] = *p++;
	out[o] = 0;
	return 0;
}
static long json_int(const char *doc, const char *key, long dflt)
{
	char pat[64]; snprintf(pat, sizeof pat, "\"%s\": ", key);
	const char *p = strstr(doc, pat);
	if (!p) return dflt;
	return strtol(p + strlen(pat), NULL, 10);
}

static int do_replay(const char *file, int trace)
{
	char *doc = slurp(file);
	if (!doc) { fprintf(stderr, "cannot read %s\n", file); return 2; }
	char hname[128]; static char flat[16384];
	if (json_str(doc, "harness", hname, sizeof hname) || json_str(doc, "prefix_flat", flat, sizeof flat)) {
		fprintf(stderr, "malformed replay file\n"); return 2;
	}
	g_h = find_harness(hname);
	if (!g_h) { fprintf(stderr, "unknown harness %s\n", hname); return 2; }
	if (g_h->nvariants) (void)g_h->nvariants();
	g_variant = (int)json_int(doc, "variant", 0);
	long ncpu = json_int(doc, "ncpu", 2);
	const char *cur = getenv("VX_NCPU");
	if (!cur || atoi(cur) != ncpu) {
		// CPU count is read by libdispatch's constructor: re-exec with it set
		char b[16]; snprintf(b, sizeof b, "%ld", ncpu); setenv("VX_NCPU", b, 1);
		char *argv[] = { "/proc/self/exe", "replay", (char *)file, trace ? "--trace" : NULL, NULL };
		execv("/proc/self/exe", argv);
		perror("execv"); return 2;
	}
	work *w = calloc(1, sizeof(work) + VX_MAXPREFIX * sizeof(vx_prefix_ent));
	if (parse_prefix(flat, w)) { fprintf(stderr, "bad prefix\n"); return 2; }
	vx_result *r = mmap(NULL, sizeof(vx_result), PROT_READ | PROT_WRITE, MAP_SHARED | MAP_ANONYMOUS, -1, 0);
	r->plen = w->n; memcpy(r->prefix, w->ents, w->n * sizeof(vx_prefix_ent));
	r->trace = trace;
	char desc[512]; desc[0] = 0; if (g_h->describe) g_h->describe(g_variant, desc, sizeof desc);
	printf("replaying %s variant %d (%s), %u non-default choices, %d deviations\n", hname, g_variant, desc, w->n, w->cost);
	fflush(stdout);
	pid_t pid = fork();
	if (pid == 0) vx_child_main(g_h, g_variant, r, g_stepcap);
	int status; waitpid(pid, &status, 0);
	struct slot sl = { .res = r, .w = w };
	snprintf(sl.errpath, sizeof sl.errpath, "/nonexistent");
	char what[4096]; what[0] = 0;
	int cls = classify(&sl, status, 0, what, sizeof what);
	for (uint32_t i = 0; i < r->log.n; i++) {
		const vx_event *e = &r->log.ev[i];
		printf("  ev #%u T%u kind=%u id=%d arg=%lld vt=%llu\n", e->seq, e->thread, e->kind, e->id, (long long)e->arg, (unsigned long long)e->vt);
	}
	printf("result: %s %s (choice points %u, steps %llu, trace hash %016llx)\n",
			cls == RS_OK ? "OK" : cls == RS_VIOLATION ? "VIOLATION" : cls == RS_ENGINE ? "ENGINE-ERROR" : "INCONCLUSIVE", what,
			r->npoints, (unsigned long long)r->nsteps, (unsigned long long)r->trace_hash);
	return cls == RS_OK ? 0 : cls == RS_VIOLATION ? 1 : 2;
}

static void usage(void)
{
	fprintf(stderr, "usage: vxh list | vxh explore --harness H --variant V [--k K] [--mode pb|db] [--jobs J]\n"
			"           [--deadline S] [--maxexec N] [--replay-dir D] [--json FILE] | vxh replay FILE [--trace]\n");
	exit(2);
}

int main(int argc, char **argv)
{
	if (argc < 2) usage();
	setvbuf(stdout, NULL, _IOLBF, 0);
	if (!strcmp(argv[1], "list")) {
		printf("[");
		int first = 1;
		for (int i = 0; vx_harnesses[i]; i++) {
			const vx_harness *h = vx_harnesses[i];
			int nv = h->nvariants ? h->nvariants() : 1;
			for (int v = 0; v < nv; v++) {
				char d[512], de[1024]; d[0] = 0;
				if (h->describe) h->describe(v, d, sizeof d);
				json_escape(d, de, sizeof de);
				printf("%s\n {\"harness\": \"%s\", \"property\": \"%s\", \"variant\": %d, \"desc\": \"%s\"}", first ? "" : ",", h->name, h->property, v, de);
				first = 0;
			}
		}
		printf("\n]\n");
		return 0;
	}
	if (!strcmp(argv[1], "replay")) {
		if (argc < 3) usage();
		int trace = argc > 3 && !strcmp(argv[3], "--trace");
		return do_replay(argv[2], trace);
	}
	if (strcmp(argv[1], "explore")) usage();
	const char *hname = NULL, *jsonout = NULL;
	for (int i = 2; i < argc; i++) {
		if (!strcmp(argv[i], "--harness") && i + 1 < argc) hname = argv[++i];
		else if (!strcmp(argv[i], "--variant") && i + 1 < argc) g_variant = atoi(argv[++i]);
		else if (!strcmp(argv[i], "--k") && i + 1 < argc) g_K = atoi(argv[++i]);
		else if (!strcmp(argv[i], "--jobs") && i + 1 < argc) g_J = atoi(argv[++i]);
		else if (!strcmp(argv[i], "--mode") && i + 1 < argc) g_mode_db = !strcmp(argv[++i], "db");
		else if (!strcmp(argv[i], "--deadline") && i + 1 < argc) g_deadline_s = atof(argv[++i]);
		else if (!strcmp(argv[i], "--maxexec") && i + 1 < argc) g_maxexec = strtoull(argv[++i], NULL, 10);
		else if (!strcmp(argv[i], "--stepcap") && i + 1 < argc) g_stepcap = strtoull(argv[++i], NULL, 10);
		else if (!strcmp(argv[i], "--child-timeout") && i + 1 < argc) g_child_timeout_s = atof(argv[++i]);
		else if (!strcmp(argv[i], "--replay-dir") && i + 1 < argc) g_replay_dir = argv[++i];
		else if (!strcmp(argv[i], "--json") && i + 1 < argc) jsonout = argv[++i];
		else if (!strcmp(argv[i], "--keep-going")) g_keep_going = 1;
		else usage();
	}
	if (!hname) usage();
	g_h = find_harness(hname);
	if (!g_h) { fprintf(stderr, "unknown harness %s\n", hname); return 2; }
	if (g_h->nvariants) (void)g_h->nvariants();   // build program tables once, children inherit them
	if (g_K > MAXK) g_K = MAXK;
	if (g_J > MAXJ) g_J = MAXJ;
	if (g_J < 1) g_J = 1;
	mkdir("/verif/out", 0755); mkdir(g_tmp_dir, 0755);
	sigset_t m; sigemptyset(&m); sigaddset(&m, SIGCHLD); sigprocmask(SIG_BLOCK, &m, NULL);
	for (int s = 0; s < g_J; s++) {
		g_slot[s].res = mmap(NULL, sizeof(vx_result), PROT_READ | PROT_WRITE, MAP_SHARED | MAP_ANONYMOUS, -1, 0);
		if (g_slot[s].res == MAP_FAILED) { perror("mmap"); return 2; }
		snprintf(g_slot[s].errpath, sizeof g_slot[s].errpath, "%s/%d.%d.err", g_tmp_dir, (int)getpid(), s);
	}
	start_forkers();
	double t0 = now_s();
	work *root = calloc(1, sizeof(work));
	push(root);
	int running = 0, stop = 0, stopped_early = 0;
	while (!stop) {
		// fill slots
		for (int s = 0; s < g_J && (!stopped_early || g_rq.n); s++) {
			if (g_slot[s].pid) continue;
			if (g_rq.n) { launch(s, g_rq.v[--g_rq.n]); running++; continue; }
			if ((st_violations && !g_keep_going) || g_rc) break;          // stop at the first violation
			if (st_exec + (uint64_t)running >= g_maxexec || now_s() - t0 > g_deadline_s) { g_hit_cap = 1; stopped_early = 1; break; }
			int level; work *w = pop(&level);
			if (!w) break;
			launch(s, w); running++;
		}
		if (running == 0) break;
		struct pollfd pf[MAXJ]; int map[MAXJ], np = 0;
		for (int s = 0; s < g_J; s++) if (g_slot[s].pid) { pf[np].fd = g_slot[s].sock; pf[np].events = POLLIN; pf[np].revents = 0; map[np++] = s; }
		int pr = poll(pf, (nfds_t)np, 1000);
		if (pr < 0 && errno != EINTR) { perror("poll"); return 2; }
		for (int i = 0; i < np; i++) if (pf[i].revents & (POLLIN | POLLHUP | POLLERR)) {
			struct reply rp;
			if (read(pf[i].fd, &rp, sizeof rp) != sizeof rp) { fprintf(stderr, "forker for slot %d died\n", map[i]); return 2; }
			finish_slot(map[i], rp.status, rp.timedout); running--;
		}
		// completed bound bookkeeping
		if ((!st_violations || g_keep_going) && !g_rc) {
			int lo = lowest_pending_level();
			if (lo - 1 > g_completed_bound) g_completed_bound = lo - 1 > g_K ? g_K : lo - 1;
		}
		if (((st_violations && !g_keep_going) || g_rc || stopped_early) && running == 0) stop = 1;
	}
	if ((!st_violations || g_keep_going) && !g_rc && !stopped_early) g_completed_bound = g_K;
	stop_forkers();
	for (int s = 0; s < g_J; s++) unlink(g_slot[s].errpath);
	double wall = now_s() - t0;
	int exhaustive = (!g_hit_cap && !st_inconclusive && !st_violations && !g_rc);

	char desc[512], desce[1024], viol[8192];
	desc[0] = 0; if (g_h->describe) g_h->describe(g_variant, desc, sizeof desc);
	json_escape(desc, desce, sizeof desce);
	json_escape(g_first_violation, viol, sizeof viol);
	FILE *jf = jsonout ? fopen(jsonout, "w") : stdout;
	if (!jf) jf = stdout;
	fprintf(jf, "{\"harness\": \"%s\", \"property\": \"%s\", \"variant\": %d, \"desc\": \"%s\", \"k\": %d, \"mode\": \"%s\", "
			"\"executions\": %llu, \"executions_by_deviations\": [", g_h->name, g_h->property, g_variant, desce, g_K,
			g_mode_db ? "delay-bounded" : "preemption-bounded", (unsigned long long)st_exec);
	for (int c = 0; c <= g_K; c++) fprintf(jf, "%s%llu", c ? ", " : "", (unsigned long long)st_exec_by_cost[c]);
	fprintf(jf, "], \"ncpu\": %d, \"io_full\": %s", getenv("VX_NCPU") ? atoi(getenv("VX_NCPU")) : 2, getenv("VX_IO_FULL") ? "true" : "false");
	fprintf(jf, ", \"steps\": %llu, \"choice_points\": %llu, \"tree_nodes\": %llu, \"max_choice_points_per_execution\": %llu, "
			"\"distinct_outcomes\": %llu, \"max_threads\": %llu, \"determinism_rechecks\": %llu, \"violations\": %llu, "
			"\"inconclusive\": %llu, \"completed_bound\": %d, \"exhaustive\": %s, \"cap_hit\": %s, \"wall_s\": %.2f, "
			"\"first_violation\": \"%s\", \"replay\": \"%s\", \"samples\": [",
			(unsigned long long)st_steps, (unsigned long long)st_points, (unsigned long long)st_newpoints,
			(unsigned long long)st_maxpoints, (unsigned long long)g_outn, (unsigned long long)st_maxthreads,
			(unsigned long long)st_rechecks, (unsigned long long)st_violations, (unsigned long long)st_inconclusive,
			g_completed_bound, exhaustive ? "true" : "false", g_hit_cap ? "true" : "false", wall, viol, g_first_replay);
	for (int i = 0; i < g_nsamples; i++) fprintf(jf, "%s%s", i ? ", " : "", g_samples[i]);
	fprintf(jf, "], \"violation_list\": [");
	for (int i = 0; i < g_nviol; i++) {
		char e[2048]; json_escape(g_viol[i].what, e, sizeof e);
		fprintf(jf, "%s{\"what\": \"%s\", \"replay\": \"%s\", \"count\": %llu}", i ? ", " : "", e, g_viol[i].replay, (unsigned long long)g_viol[i].count);
	}
	fprintf(jf, "]}\n");
	if (jf != stdout) fclose(jf);
	if (g_rc) return g_rc;
	if (st_violations) {
		printf("VIOLATION-FOUND harness=%s variant=%d replay=%s : %s\n", g_h->name, g_variant, g_first_replay, g_first_violation);
		return 1;
	}
	return 0;
}
