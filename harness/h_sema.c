// C08 — dispatch semaphores conserve permits
#include "hcommon.h"

#define MAXPROG 4096
typedef struct { int v; int nthr; char ops[3][4]; } prog;
static prog g_progs[MAXPROG];
static int g_nprogs, g_nquick;
static const char ALPHA[] = "SFTN";

static int count(const prog *p, char c)
{
	int n = 0;
	for (int t = 0; t < p->nthr; t++) for (const char *s = p->ops[t]; *s; s++) if (*s == c) n++;
	return n;
}

static void gen_thread_scripts(char out[][4], int *n, int maxops)
{
	*n = 0;
	for (int len = 1; len <= maxops; len++) {
		int total = 1; for (int i = 0; i < len; i++) total *= 4;
		for (int x = 0; x < total; x++) {
			int y = x; char *s = out[*n];
			for (int i = 0; i < len; i++) { s[i] = ALPHA[y % 4]; y /= 4; }
			s[len] = 0; (*n)++;
		}
	}
}

// Ideal-semaphore reachability: can the program deadlock even with a perfect semaphore?
// (a wait FOREVER with no permit left while nobody can signal any more)  Such programs are
// excluded: their stuck executions would be legitimate.
static int ideal_can_deadlock(const prog *p, int pc0, int pc1, int pc2, int permits)
{
	int pc[3] = { pc0, pc1, pc2 }, any_unfinished = 0, any_enabled = 0;
	for (int t = 0; t < p->nthr; t++) {
		char o = p->ops[t][pc[t]];
		if (!o) continue;
		any_unfinished = 1;
		int np[3] = { pc[0], pc[1], pc[2] }; np[t]++;
		if (o == 'S') { any_enabled = 1; if (ideal_can_deadlock(p, np[0], np[1], np[2], permits + 1)) return 1; }
		else if (o == 'F') { if (permits > 0) { any_enabled = 1; if (ideal_can_deadlock(p, np[0], np[1], np[2], permits - 1)) return 1; } }
		else {
			any_enabled = 1;
			if (permits > 0 && ideal_can_deadlock(p, np[0], np[1], np[2], permits - 1)) return 1;
			if (ideal_can_deadlock(p, np[0], np[1], np[2], permits)) return 1;   // timed out / polled empty
		}
	}
	return any_unfinished && !any_enabled;
}

static void build(void)
{
	if (g_nprogs) return;
	char scr[32][4]; int ns;
	gen_thread_scripts(scr, &ns, 2);
	// 2 threads: scripts of 1..2 ops each (unordered pairs), v in {0,1}
	for (int v = 0; v <= 1; v++)
		for (int a = 0; a < ns; a++) for (int b = a; b < ns; b++) {
			prog p = { v, 2, { "", "", "" } };
			strcpy(p.ops[0], scr[a]); strcpy(p.ops[1], scr[b]);
			int S = count(&p, 'S'), F = count(&p, 'F'), T = count(&p, 'T'), N = count(&p, 'N');
			if (F > v + S - (T + N) && F > 0) continue;   // a forever wait could legitimately starve
			if (S == 0 && v == 0 && F == 0 && T + N < 2) continue; // trivial
			if (F + T + N == 0) continue;                  // no wait at all
			if (ideal_can_deadlock(&p, 0, 0, 0, p.v)) continue;
			g_progs[g_nprogs++] = p;
		}
	// 3 threads: one op each
	for (int v = 0; v <= 1; v++)
		for (int a = 0; a < 4; a++) for (int b = a; b < 4; b++) for (int c = b; c < 4; c++) {
			prog p = { v, 3, { "", "", "" } };
			p.ops[0][0] = ALPHA[a]; p.ops[1][0] = ALPHA[b]; p.ops[2][0] = ALPHA[c];
			int S = count(&p, 'S'), F = count(&p, 'F'), T = count(&p, 'T'), N = count(&p, 'N');
			if (F > v + S - (T + N) && F > 0) continue;
			if (F + T + N == 0) continue;
			if (ideal_can_deadlock(&p, 0, 0, 0, p.v)) continue;
			g_progs[g_nprogs++] = p;
		}
	g_nquick = g_nprogs;
	// thorough: 3 threads with 1..2 ops each (unordered triples, at least one 2-op script)
	for (int v = 0; v <= 1; v++)
		for (int a = 0; a < ns; a++) for (int b = a; b < ns; b++) for (int c = b; c < ns; c++) {
			prog p = { v, 3, { "", "", "" } };
			strcpy(p.ops[0], scr[a]); strcpy(p.ops[1], scr[b]); strcpy(p.ops[2], scr[c]);
			if (strlen(scr[a]) + strlen(scr[b]) + strlen(scr[c]) == 3) continue;  // already above
			int S = count(&p, 'S'), F = count(&p, 'F'), T = count(&p, 'T'), N = count(&p, 'N');
			if (F > v + S - (T + N) && F > 0) continue;
			if (F + T + N == 0 || S == 0) continue;
			if (ideal_can_deadlock(&p, 0, 0, 0, p.v)) continue;
			if (g_nprogs < MAXPROG) g_progs[g_nprogs++] = p;
		}
}

static int nvariants(void) { build(); return g_nprogs; }
static void describe(int v, char *b, size_t n)
{
	build();
	const prog *p = &g_progs[v];
	snprintf(b, n, "semaphore(value=%d); threads: [%s] [%s]%s%s%s  (S=signal F=wait FOREVER T=wait 1ms N=wait NOW); then drain with NOW%s",
			p->v, p->ops[0], p->ops[1], p->nthr > 2 ? " [" : "", p->nthr > 2 ? p->ops[2] : "", p->nthr > 2 ? "]" : "", v < g_nquick ? " {core}" : "");
}

static dispatch_semaphore_t g_sem;
static const prog *g_p;
enum { EV_SIG_CALL = EV_USER, EV_SIG_RET, EV_WAIT_CALL, EV_WAIT_RET, EV_DRAIN };

static void actor(void *arg)
{
	int t = (int)(intptr_t)arg;
	int k = 0;
	for (const char *s = g_p->ops[t]; *s; s++, k++) {
		int id = t * 10 + k;
		char note[8] = { 'o', 'p', ' ', *s, 0 };
		vx_note(note);
		if (*s == 'S') {
			vx_ev(EV_SIG_CALL, id, 0);
			dispatch_semaphore_signal(g_sem);
			vx_ev(EV_SIG_RET, id, 0);
		} else {
			dispatch_time_t to = *s == 'F' ? DISPATCH_TIME_FOREVER : *s == 'N' ? DISPATCH_TIME_NOW :
					dispatch_time(DISPATCH_TIME_NOW, 1 * MS);
			vx_ev(EV_WAIT_CALL, id, *s);
			intptr_t r = dispatch_semaphore_wait(g_sem, to);
			vx_ev(EV_WAIT_RET, id, r != 0);
		}
	}
	vx_note("");
}

static void run(int v)
{
	build();
	g_p = &g_progs[v];
	g_sem = dispatch_semaphore_create(g_p->v);
	int th[3];
	vx_focus_begin();
	for (int t = 1; t < g_p->nthr; t++) th[t] = vx_thread(actor, (void *)(intptr_t)t);
	actor((void *)0);
	for (int t = 1; t < g_p->nthr; t++) vx_join(th[t]);
	vx_focus_end();
	int drained = 0;
	while (dispatch_semaphore_wait(g_sem, DISPATCH_TIME_NOW) == 0) { drained++; if (drained > 16) break; }
	vx_ev(EV_DRAIN, 0, drained);
}

static int check(int v, const vx_log *l, char *msg, size_t len)
{
	const prog *p = &g_progs[v];
	int sig_started = 0, succ = 0, drained = -1;
	uint64_t call_vt[64]; int call_kind[64];
	memset(call_kind, 0, sizeof call_kind);
	for (uint32_t i = 0; i < l->n; i++) {
		const vx_event *e = &l->ev[i];
		switch (e->kind) {
		case EV_SIG_CALL: sig_started++; break;
		case EV_WAIT_CALL: call_vt[e->id] = e->vt; call_kind[e->id] = (int)e->arg; break;
		case EV_WAIT_RET:
			if (e->arg == 0) {
				succ++;
				if (succ > p->v + sig_started)
					FAILF(msg, len, "spurious success: %d waits have returned 0 but only %d permits existed (value %d + %d signals started) at event #%u",
							succ, p->v + sig_started, p->v, sig_started, e->seq);
			} else {
				uint64_t need = call_kind[e->id] == 'T' ? 1 * MS : 0;
				if (call_kind[e->id] == 'F') FAILF(msg, len, "wait FOREVER (op %d) returned non-zero", e->id);
				if (e->vt - call_vt[e->id] < need)
					FAILF(msg, len, "timed wait (op %d) returned non-zero after %llu ns, before its %llu ns timeout",
							e->id, (unsigned long long)(e->vt - call_vt[e->id]), (unsigned long long)need);
			}
			break;
		case EV_DRAIN: drained = (int)e->arg; break;
		}
	}
	int S = count(p, 'S');
	int waits = count(p, 'F') + count(p, 'T') + count(p, 'N');
	if (ev_count(l, EV_WAIT_RET, -1) != 0) { }
	int rets = 0;
	for (uint32_t i = 0; i < l->n; i++) if (l->ev[i].kind == EV_WAIT_RET) rets++;
	if (rets != waits) FAILF(msg, len, "%d waits were issued but %d returned", waits, rets);
	if (drained != p->v + S - succ)
		FAILF(msg, len, "permit accounting broken: value %d + %d signals - %d successful waits = %d permits should remain, but %d could be obtained",
				p->v, S, succ, p->v + S - succ, drained);
	return 0;
}

const vx_harness h_sema = { "sema", "C08", nvariants, describe, run, check, 1, 0 };
