// C17 — objects live while referenced or busy and are finalised exactly once
//
// Each scenario lets the LAST application release of an object race with work that is still
// pending or running on it.  Oracles: AddressSanitizer on every schedule (use-after-free),
// finalizer exactly once, on the target queue, with the right context, after the last item;
// free() of the object's memory observed (exactly once: afterwards the pointer is unwatched and
// a second free is ASan's to report), never before the last item's END.
#include "hcommon.h"
#include <dispatch/private.h>
#include <unistd.h>

static const char *const NAMES[] = {
	"serial queue: release right after async (item pending or running)",
	"serial queue: two threads each hold a reference, async then release",
	"concurrent queue: two threads, two items, both release",
	"serial queue: suspend / async / resume / release on one thread, release on the other",
	"hierarchy: release the target first, then the queue that still has an item",
	"data source: merge, cancel, release source and its target queue",
	"group: group_async + notify, then release the group at once",
	"semaphore: waiter and signaller each release their reference",
	"queue-specific data with a destructor: release after async",
	"dispatch_data with a custom destructor: two holders (one of a subrange) release concurrently",
	"serial queue with an item that re-submits to the queue being released",
	"serial queue: ownership handed to an item (the item releases the last application reference) while a drainer is active",
	"data source whose cancel handler drops the last application reference: merge, then cancel from the main thread",
	"block object submitted with dispatch_async, dispatch_block_wait(FOREVER) racing its completion, then one more item and the last release of the queue",
	"block object submitted with dispatch_async, a second thread polls dispatch_block_wait(NOW) then waits FOREVER, the main thread releases the queue",
	"dispatch I/O channel on a pipe: close, cleanup handler, close again with DISPATCH_IO_STOP, last release at once",
};
#define NSC ((int)(sizeof(NAMES) / sizeof(NAMES[0])))
enum { OBJ_Q = 1, OBJ_T = 2, OBJ_SRC = 3, OBJ_GRP = 4, OBJ_SEM = 5 };
enum { EV_FINAL = EV_USER, EV_DTOR, EV_CANCELH, EV_REL };
static const char KEY_T = 0, KEY_Q = 0;

static dispatch_queue_t g_q, g_t;
static dispatch_source_t g_src;
static dispatch_group_t g_grp;
static dispatch_semaphore_t g_sem;
static dispatch_data_t g_data, g_sub;
static int g_scen, g_done;
static dispatch_block_t g_blk;
static char g_ctx_q[4] = "ctx", g_buf[4] = "xyz";

static void note_done(void) { g_done++; }
static void rel(void *o, int id) { vx_ev(EV_REL, id, 0); dispatch_release(o); }
static void item(void *ctx) { item_body((int)(intptr_t)ctx); note_done(); }
static void item_resubmit(void *ctx)
{
	int id = (int)(intptr_t)ctx;
	vx_ev(EV_START, id, 0);
	dispatch_async_f(g_q, (void *)(intptr_t)(id + 1), item);
	vx_point();
	vx_ev(EV_END, id, 0);
	note_done();
}
static void item_releases_queue(void *ctx)
{
	int id = (int)(intptr_t)ctx;
	vx_ev(EV_START, id, 0);
	rel(g_q, OBJ_Q);
	vx_point();
	vx_ev(EV_END, id, 0);
	note_done();
}
static void finalizer(void *ctx)
{
	int on_target = dispatch_get_specific(&KEY_T) == (void *)&KEY_T;
	vx_ev(EV_FINAL, ctx == g_ctx_q ? 1 : 0, on_target);
	note_done();
}
static void specific_dtor(void *ctx) { vx_ev(EV_DTOR, ctx == g_ctx_q, 0); note_done(); }
static void cancel_handler(void *ctx) { (void)ctx; vx_ev(EV_CANCELH, 0, dispatch_get_specific(&KEY_T) == (void *)&KEY_T); note_done(); }
static void cancel_handler_releasing(void *ctx)
{
	(void)ctx;
	vx_ev(EV_CANCELH, 0, dispatch_get_specific(&KEY_T) == (void *)&KEY_T);
	rel(g_src, OBJ_SRC);          // the application's last reference goes away inside the cancel handler
	note_done();
}
static void src_handler(void *ctx) { (void)ctx; item_body(50); }
static void warm_fn(void *c) { *(int *)c = 1; }
static void warm(dispatch_queue_t q) { int d = 0; dispatch_async_f(q, &d, warm_fn); int *a[2] = { &d, (int *)(intptr_t)1 }; vx_wait_until(pred_int_ge, a); }


static void t1_fn(void *arg)
{
	(void)arg;
	switch (g_scen) {
	case 1: dispatch_async_f(g_q, (void *)(intptr_t)2, item); rel(g_q, OBJ_Q); break;
	case 2: dispatch_async_f(g_q, (void *)(intptr_t)2, item); rel(g_q, OBJ_Q); break;
	case 3: dispatch_suspend(g_q); dispatch_async_f(g_q, (void *)(intptr_t)2, item); dispatch_resume(g_q); rel(g_q, OBJ_Q); break;
	case 7: dispatch_semaphore_wait(g_sem, DISPATCH_TIME_FOREVER); rel(g_sem, OBJ_SEM); note_done(); break;
	case 9: rel(g_sub, 9); break;
	case 14:
		if (dispatch_block_wait(g_blk, DISPATCH_TIME_NOW)) dispatch_block_wait(g_blk, DISPATCH_TIME_FOREVER);
		note_done(); break;
	}
}

static int nvariants(void) { return NSC; }
static void describe(int v, char *b, size_t n) { snprintf(b, n, "%s", NAMES[v]); }

static void wait_done(int n) { int *a[2] = { &g_done, (int *)(intptr_t)n }; vx_wait_until(pred_int_ge, a); }
static int freed_pred(void *id) { return ev_count(vx_get_log(), EV_FREE, (int)(intptr_t)id) >= 1; }
static void wait_freed(int id) { vx_wait_until(freed_pred, (void *)(intptr_t)id); }

static dispatch_queue_t mkq(const char *l, dispatch_queue_attr_t a, dispatch_queue_t target, int watch_id)
{
	dispatch_queue_t q = dispatch_queue_create_with_target(l, a, target);
	dispatch_set_context(q, g_ctx_q);
	dispatch_set_finalizer_f(q, finalizer);
	if (watch_id) vx_watch_free(q, watch_id);
	return q;
}

static void run(int v)
{
	g_scen = v; g_done = 0;
	vx_set_horizon(12ull * 1000000000ull);
	g_t = dispatch_queue_create("vx.life.target", NULL);
	dispatch_queue_set_specific(g_t, &KEY_T, (void *)&KEY_T, NULL);
	warm(g_t);
	int th = -1, expect = 0;
	switch (v) {
	case 0:
		g_q = mkq("vx.life.q", NULL, g_t, OBJ_Q); warm(g_q);
		vx_focus_begin();
		dispatch_async_f(g_q, (void *)(intptr_t)1, item);
		rel(g_q, OBJ_Q);
		expect = 2; break;
	case 1: case 2: case 3:
		g_q = mkq("vx.life.q", v == 2 ? DISPATCH_QUEUE_CONCURRENT : DISPATCH_QUEUE_SERIAL, g_t, OBJ_Q); warm(g_q);
		dispatch_retain(g_q);
		vx_focus_begin();
		th = vx_thread(t1_fn, NULL);
		dispatch_async_f(g_q, (void *)(intptr_t)1, item);
		rel(g_q, OBJ_Q);
		expect = 3; break;
	case 4: {
		dispatch_queue_t q0 = mkq("vx.life.q0", NULL, g_t, OBJ_T);
		g_q = dispatch_queue_create_with_target("vx.life.q1", NULL, q0);
		vx_watch_free(g_q, OBJ_Q);
		warm(g_q);
		vx_focus_begin();
		dispatch_async_f(g_q, (void *)(intptr_t)1, item);
		rel(q0, OBJ_T);
		rel(g_q, OBJ_Q);
		expect = 2; break; }
	case 5:
		g_q = dispatch_queue_create_with_target("vx.life.q", NULL, g_t); warm(g_q);
		dispatch_queue_set_specific(g_q, &KEY_T, (void *)&KEY_T, NULL);
		vx_watch_free(g_q, OBJ_Q);
		g_src = dispatch_source_create(DISPATCH_SOURCE_TYPE_DATA_ADD, 0, 0, g_q);
		vx_watch_free(g_src, OBJ_SRC);
		dispatch_set_context(g_src, g_ctx_q);
		dispatch_set_finalizer_f(g_src, finalizer);
		dispatch_source_set_event_handler_f(g_src, src_handler);
		dispatch_source_set_cancel_handler_f(g_src, cancel_handler);
		dispatch_activate(g_src);
		vx_focus_begin();
		dispatch_source_merge_data(g_src, 1);
		dispatch_source_cancel(g_src);
		rel(g_src, OBJ_SRC);
		rel(g_q, OBJ_Q);
		expect = 2; break;
	case 6:
		g_q = dispatch_queue_create_with_target("vx.life.q", NULL, g_t); warm(g_q);
		g_grp = dispatch_group_create();
		vx_watch_free(g_grp, OBJ_GRP);
		vx_focus_begin();
		dispatch_group_async_f(g_grp, g_q, (void *)(intptr_t)1, item);
		dispatch_group_notify_f(g_grp, g_q, (void *)(intptr_t)2, item);
		rel(g_grp, OBJ_GRP);
		expect = 2; break;
	case 7:
		g_sem = dispatch_semaphore_create(0);
		vx_watch_free(g_sem, OBJ_SEM);
		dispatch_retain(g_sem);
		vx_focus_begin();
		th = vx_thread(t1_fn, NULL);
		dispatch_semaphore_signal(g_sem);
		rel(g_sem, OBJ_SEM);
		expect = 1; break;
	case 8:
		g_q = dispatch_queue_create_with_target("vx.life.q", NULL, g_t); warm(g_q);
		vx_watch_free(g_q, OBJ_Q);
		dispatch_queue_set_specific(g_q, &KEY_Q, g_ctx_q, specific_dtor);
		vx_focus_begin();
		dispatch_async_f(g_q, (void *)(intptr_t)1, item);
		rel(g_q, OBJ_Q);
		expect = 2; break;
	case 9:
		g_data = dispatch_data_create(g_buf, 3, g_t, ^{ vx_ev(EV_DTOR, 2, dispatch_get_specific(&KEY_T) == (void *)&KEY_T); note_done(); });
		g_sub = dispatch_data_create_subrange(g_data, 1, 2);
		vx_focus_begin();
		th = vx_thread(t1_fn, NULL);
		rel(g_data, 8);
		expect = 1; break;
	case 10:
		g_q = mkq("vx.life.q", NULL, g_t, OBJ_Q); warm(g_q);
		vx_focus_begin();
		dispatch_async_f(g_q, (void *)(intptr_t)1, item_resubmit);
		rel(g_q, OBJ_Q);
		expect = 3; break;
	case 12:
		g_q = dispatch_queue_create_with_target("vx.life.q", NULL, g_t); warm(g_q);
		dispatch_queue_set_specific(g_q, &KEY_T, (void *)&KEY_T, NULL);
		g_src = dispatch_source_create(DISPATCH_SOURCE_TYPE_DATA_ADD, 0, 0, g_q);
		vx_watch_free(g_src, OBJ_SRC);
		dispatch_set_context(g_src, g_ctx_q);
		dispatch_set_finalizer_f(g_src, finalizer);
		dispatch_source_set_event_handler_f(g_src, src_handler);
		dispatch_source_set_cancel_handler_f(g_src, cancel_handler_releasing);
		dispatch_activate(g_src);
		vx_focus_begin();
		dispatch_source_merge_data(g_src, 1);
		dispatch_source_cancel(g_src);      // must stay memory-safe although the handler may already have dropped the last reference
		expect = 2; break;
	case 11:
		g_q = mkq("vx.life.q", NULL, g_t, OBJ_Q); warm(g_q);
		vx_focus_begin();
		dispatch_async_f(g_q, (void *)(intptr_t)1, item);
		dispatch_async_f(g_q, (void *)(intptr_t)2, item_releases_queue);
		expect = 3; break;
	case 15: {
		// every block the channel posts to itself must hold the channel until it has run
		int pfd[2];
		if (pipe(pfd)) vx_fail("pipe");
		vx_set_io_only(1, 0);               // the channel machinery spans many threads: follow the default schedule (the
		                                    // order that matters here, "posted block after the caller's release", is the usual one)
		dispatch_io_t ch = dispatch_io_create(DISPATCH_IO_STREAM, pfd[0], g_t, ^(int err) { (void)err; vx_ev(EV_DTOR, 3, 0); note_done(); });
		vx_watch_free(ch, OBJ_Q);
		vx_focus_begin();
		dispatch_io_close(ch, 0);
		wait_done(1);                       // cleanup handler has run
		dispatch_io_close(ch, DISPATCH_IO_STOP);
		rel(ch, OBJ_Q);
		expect = 1; break; }
	case 13: case 14:
		// the references a submitted block object holds on its queue are consumed exactly once, by the waiter or by the worker
		g_q = mkq("vx.life.q", NULL, g_t, OBJ_Q); warm(g_q);
		g_blk = dispatch_block_create(0, ^{ item_body(1); note_done(); });
		vx_focus_begin();
		if (v == 14) th = vx_thread(t1_fn, NULL);
		dispatch_async(g_q, g_blk);
		if (v == 13) dispatch_block_wait(g_blk, DISPATCH_TIME_FOREVER);
		dispatch_async_f(g_q, (void *)(intptr_t)2, item);
		rel(g_q, OBJ_Q);
		expect = v == 13 ? 3 : 4; break;
	}
	if (th >= 0) vx_join(th);
	wait_done(expect);
	// a leak shows up as a stuck witness here
	switch (v) {
	case 4: wait_freed(OBJ_Q); wait_freed(OBJ_T); break;
	case 5: wait_freed(OBJ_SRC); wait_freed(OBJ_Q); break;
	case 12: wait_freed(OBJ_SRC); break;
	case 6: wait_freed(OBJ_GRP); break;
	case 7: wait_freed(OBJ_SEM); break;
	case 9: break;
	default: wait_freed(OBJ_Q); break;
	}
	vx_focus_end();
}

static int check(int v, const vx_log *l, char *msg, size_t len)
{
	int last_end = ev_last(l, EV_END, 1);
	for (uint32_t i = 0; i < l->n; i++) if (l->ev[i].kind == EV_END && (int)i > last_end) last_end = (int)i;
	int has_final = (v <= 5 || (v >= 10 && v != 15)), nfinal = 0, nfree_q = ev_count(l, EV_FREE, OBJ_Q);
	for (uint32_t i = 0; i < l->n; i++) {
		const vx_event *e = &l->ev[i];
		if (e->kind == EV_FINAL) {
			nfinal++;
			if (e->id != 1) FAILF(msg, len, "finalizer was called with the wrong context");
			if (e->arg != 1) FAILF(msg, len, "finalizer did not run on the object's target queue");
			if ((int)i < last_end) FAILF(msg, len, "finalizer ran (event #%u) before the last item of the object finished (event #%d)", i, last_end);
		}
		if (e->kind == EV_FREE && (e->id == OBJ_Q || e->id == OBJ_T) && (int)i < last_end)
			FAILF(msg, len, "queue object %d was freed (event #%u) before its last item finished (event #%d)", e->id, i, last_end);
		if (e->kind == EV_CANCELH && e->arg != 1) FAILF(msg, len, "cancel handler did not run on the source's target queue");
	}
	if (has_final && nfinal != 1) FAILF(msg, len, "finalizer ran %d times (expected exactly once)", nfinal);
	if (v != 6 && v != 7 && v != 9 && v != 12 && nfree_q != 1) FAILF(msg, len, "the queue's memory was released %d times by the end (expected once)", nfree_q);
	if (v == 4) {
		int ft = ev_first(l, EV_FREE, OBJ_T), fq = ev_first(l, EV_FREE, OBJ_Q);
		if (ft < 0) FAILF(msg, len, "the target queue was never freed");
		if (fq < 0 || ft < fq) FAILF(msg, len, "the target queue was freed (event #%d) before the queue targeting it (event #%d)", ft, fq);
	}
	if (v == 12) {
		if (ev_count(l, EV_CANCELH, 0) != 1) FAILF(msg, len, "cancel handler ran %d times", ev_count(l, EV_CANCELH, 0));
		if (ev_count(l, EV_FREE, OBJ_SRC) != 1) FAILF(msg, len, "the source was freed %d times", ev_count(l, EV_FREE, OBJ_SRC));
	}
	if (v == 5) {
		if (ev_count(l, EV_CANCELH, 0) != 1) FAILF(msg, len, "cancel handler ran %d times", ev_count(l, EV_CANCELH, 0));
		int fs = ev_first(l, EV_FREE, OBJ_SRC), fq = ev_first(l, EV_FREE, OBJ_Q);
		if (fs < 0) FAILF(msg, len, "the source was never freed");
		if (fq >= 0 && fq < fs) FAILF(msg, len, "the target queue was freed before the source targeting it");
	}
	if (v == 6 && ev_count(l, EV_FREE, OBJ_GRP) != 1) FAILF(msg, len, "the group's memory was released %d times", ev_count(l, EV_FREE, OBJ_GRP));
	if (v == 6 && ev_first(l, EV_FREE, OBJ_GRP) < ev_first(l, EV_END, 1)) FAILF(msg, len, "the group was freed while its group_async item had not finished");
	if (v == 7 && ev_count(l, EV_FREE, OBJ_SEM) != 1) FAILF(msg, len, "the semaphore's memory was released %d times", ev_count(l, EV_FREE, OBJ_SEM));
	if (v == 8) {
		if (ev_count(l, EV_DTOR, 1) != 1) FAILF(msg, len, "queue-specific destructor ran %d times", ev_count(l, EV_DTOR, 1));
		if (ev_first(l, EV_DTOR, 1) < last_end) FAILF(msg, len, "queue-specific destructor ran before the queue's last item finished");
	}
	if (v == 9) {
		if (ev_count(l, EV_DTOR, 2) != 1) FAILF(msg, len, "data destructor ran %d times", ev_count(l, EV_DTOR, 2));
		int d = ev_first(l, EV_DTOR, 2);
		if (l->ev[d].arg != 1) FAILF(msg, len, "data destructor did not run on the queue given to dispatch_data_create");
		if (d < ev_last(l, EV_REL, 8) || d < ev_last(l, EV_REL, 9)) FAILF(msg, len, "data destructor ran before both holders had released");
	}
	return 0;
}

const vx_harness h_life = { "life", "C17", nvariants, describe, run, check, 0, 0 };
