// C16 — cancelling a source stops its handler and runs the cancel handler once
//
// variant = source kind (DATA_ADD, timer, read, write) x life-cycle point of the cancel
#define _GNU_SOURCE
#include "hcommon.h"
#include <dispatch/private.h>
#include <fcntl.h>
#include <unistd.h>

static const char *const KN[] = { "DATA_ADD source", "periodic 1 ms timer source", "read source on a pipe (handler drains it, one byte fed per event)", "write source on a 4 KiB pipe (handler fills it, drained per event)" };
static const char *const SN[] = {
	"cancelled before activation, then activated",
	"cancelled from inside its first handler invocation",
	"cancelled from an item on its serial target queue after the first invocation",
	"cancelled from another thread while events keep arriving",
	"cancelled by two threads at once",
	"dispatch_source_cancel_and_wait from another thread (no cancel handler)",
	"cancel racing with activation on another thread",
	"cancelled from its registration handler while an event is already pending",
};
static const char *const SIB = "cancelled from inside its first handler invocation right after a sibling source was created and activated on the same descriptor; "
	"the sibling must keep receiving events (its registration is shared) and is cancelled afterwards";
#define NK 4
#define NS 8
#define NSIB 2      // extra variants: read and write kinds with a sibling source on the same descriptor
#define NINACT 3    // extra variants: timer, read, write sources that are never activated: cancel, then cancel_and_wait
static const char *const INACT = "never activated: dispatch_source_cancel, then dispatch_source_cancel_and_wait (no cancel handler) must return";
#define HANDLER 100
#define HANDLER2 101
enum { EV_CANCEL_CALL = EV_USER, EV_CANCEL_RET, EV_CANCELH, EV_CANCELH2 };
static const char KEY = 0;

static dispatch_source_t g_src, g_src2;
static dispatch_queue_t g_q;
static int g_kind, g_scen, g_count, g_cancelh, g_fd = -1, g_pipe[2], g_count2, g_cancelh2;

static void do_cancel(int id)
{
	vx_ev(EV_CANCEL_CALL, id, 0);
	dispatch_source_cancel(g_src);
	vx_ev(EV_CANCEL_RET, id, 0);
}
static void fill_pipe(void) { char b[512]; memset(b, 'w', sizeof b); while (write(g_pipe[1], b, sizeof b) > 0) { } }
static void drain_pipe(void) { char b[512]; while (read(g_pipe[0], b, sizeof b) > 0) { } }
static void handler2(void *ctx)
{
	(void)ctx;
	vx_ev(EV_START, HANDLER2, (int64_t)dispatch_source_get_data(g_src2));
	if (g_kind == 2) drain_pipe();
	if (g_kind == 3) fill_pipe();
	g_count2++;
	vx_point();
	vx_ev(EV_END, HANDLER2, 0);
}
static void cancel_handler2(void *ctx) { (void)ctx; vx_ev(EV_CANCELH2, 0, vx_epoll_armed(g_fd)); g_cancelh2++; }
static void handler(void *ctx)
{
	(void)ctx;
	vx_ev(EV_START, HANDLER, (int64_t)dispatch_source_get_data(g_src));
	g_count++;
	// consume the event so that the (level-triggered) source goes quiet until the next feed()
	if (g_kind == 2) drain_pipe();
	if (g_kind == 3) fill_pipe();
	if (g_scen == 8 && g_count == 1) {
		g_src2 = dispatch_source_create(g_kind == 2 ? DISPATCH_SOURCE_TYPE_READ : DISPATCH_SOURCE_TYPE_WRITE, (uintptr_t)g_fd, 0, g_q);
		dispatch_source_set_event_handler_f(g_src2, handler2);
		dispatch_source_set_cancel_handler_f(g_src2, cancel_handler2);
		dispatch_activate(g_src2);
		do_cancel(1);
	}
	if (g_scen == 1 && g_count == 1) do_cancel(1);
	vx_point();
	vx_ev(EV_END, HANDLER, 0);
}
static void cancel_handler(void *ctx)
{
	(void)ctx;
	int on_target = dispatch_get_specific(&KEY) == (void *)&KEY;
	int armed = g_fd >= 0 ? vx_epoll_armed(g_fd) : -1;
	vx_ev(EV_CANCELH, on_target, armed);
	g_cancelh++;
}
static void cancel_item(void *ctx) { (void)ctx; do_cancel(2); }
static void registration_handler(void *ctx) { (void)ctx; do_cancel(4); }
static void t1_fn(void *arg)
{
	(void)arg;
	if (g_scen == 4) do_cancel(3);
	if (g_scen == 6) dispatch_activate(g_src);
}
static void warm_fn(void *c) { *(int *)c = 1; }
static void wait_int(int *p, int n) { int *a[2] = { p, (int *)(intptr_t)n }; vx_wait_until(pred_int_ge, a); }

static int nvariants(void) { return NK * NS + NSIB + NINACT; }
static void decode(int v, int *kind, int *scen) { if (v < NK * NS) { *kind = v / NS; *scen = v % NS; } else if (v < NK * NS + NSIB) { *kind = 2 + (v - NK * NS); *scen = 8; } else { *kind = 1 + (v - NK * NS - NSIB); *scen = 9; } }
static void describe(int v, char *b, size_t n) { int k, sc; decode(v, &k, &sc); snprintf(b, n, "%s %s", KN[k], sc == 8 ? SIB : sc == 9 ? INACT : SN[sc]); }

static void feed(void)
{
	if (g_kind == 0) dispatch_source_merge_data(g_src, 1);
	if (g_kind == 2 && write(g_pipe[1], "y", 1) != 1) { }
	if (g_kind == 3) drain_pipe();
}

static void run(int v)
{
	decode(v, &g_kind, &g_scen); g_count = g_cancelh = g_count2 = g_cancelh2 = 0; g_fd = -1;
	vx_set_horizon(6ull * 1000000000ull);
	g_q = dispatch_queue_create("vx.cancel", NULL);
	dispatch_queue_set_specific(g_q, &KEY, (void *)&KEY, NULL);
	int d = 0; dispatch_async_f(g_q, &d, warm_fn); wait_int(&d, 1);
	switch (g_kind) {
	case 0: g_src = dispatch_source_create(DISPATCH_SOURCE_TYPE_DATA_ADD, 0, 0, g_q); break;
	case 1:
		g_src = dispatch_source_create(DISPATCH_SOURCE_TYPE_TIMER, 0, 0, g_q);
		dispatch_source_set_timer(g_src, dispatch_time(DISPATCH_TIME_NOW, 1 * MS), 1 * MS, 0);
		break;
	case 2: case 3:
		if (pipe(g_pipe)) vx_fail("pipe");
		fcntl(g_pipe[0], F_SETFL, O_NONBLOCK); fcntl(g_pipe[1], F_SETFL, O_NONBLOCK);
		fcntl(g_pipe[1], F_SETPIPE_SZ, 4096);
		if (g_kind == 2) { if (write(g_pipe[1], "x", 1) != 1) vx_fail("write"); g_fd = g_pipe[0]; }
		else g_fd = g_pipe[1];
		g_src = dispatch_source_create(g_kind == 2 ? DISPATCH_SOURCE_TYPE_READ : DISPATCH_SOURCE_TYPE_WRITE, (uintptr_t)g_fd, 0, g_q);
		break;
	}
	dispatch_source_set_event_handler_f(g_src, handler);
	if (g_scen != 5 && g_scen != 9) dispatch_source_set_cancel_handler_f(g_src, cancel_handler);
	if (g_scen == 7) dispatch_source_set_registration_handler_f(g_src, registration_handler);
	int th = -1;
	vx_focus_begin();
	switch (g_scen) {
	case 0:
		do_cancel(1);
		dispatch_activate(g_src);
		break;
	case 1:
		dispatch_activate(g_src); feed();
		break;
	case 2:
		dispatch_activate(g_src); feed();
		wait_int(&g_count, 1);
		feed();
		dispatch_async_f(g_q, NULL, cancel_item);
		break;
	case 3:
		dispatch_activate(g_src); feed();
		wait_int(&g_count, 1);
		feed();
		do_cancel(1);
		break;
	case 4:
		dispatch_activate(g_src); feed();
		wait_int(&g_count, 1);
		th = vx_thread(t1_fn, NULL);
		do_cancel(1);
		break;
	case 5:
		dispatch_activate(g_src); feed();
		wait_int(&g_count, 1);
		feed();
		vx_ev(EV_CANCEL_CALL, 5, 0);
		dispatch_source_cancel_and_wait(g_src);
		vx_ev(EV_CANCEL_RET, 5, g_fd >= 0 ? vx_epoll_armed(g_fd) : -1);
		break;
	case 6:
		th = vx_thread(t1_fn, NULL);
		feed();
		do_cancel(1);
		break;
	case 7:
		feed();                      // data merged / byte present before the source is even activated
		dispatch_activate(g_src);
		break;
	case 9:
		do_cancel(1);
		vx_ev(EV_CANCEL_CALL, 5, 0);
		dispatch_source_cancel_and_wait(g_src);
		vx_ev(EV_CANCEL_RET, 5, g_fd >= 0 ? vx_epoll_armed(g_fd) : -1);
		break;
	case 8:
		dispatch_activate(g_src); feed();
		wait_int(&g_cancelh, 1);
		feed();                      // the next event belongs to the sibling alone
		wait_int(&g_count2, 1);
		vx_ev(EV_CANCEL_CALL, 8, 0); dispatch_source_cancel(g_src2); vx_ev(EV_CANCEL_RET, 8, 0);
		wait_int(&g_cancelh2, 1);
		break;
	}
	if (th >= 0) vx_join(th);
	if (g_scen != 5 && g_scen != 9) wait_int(&g_cancelh, 1);
	vx_focus_end();
	// let a few virtual ms pass: nothing may be delivered any more
	vx_set_horizon(vx_vt() + 1000 * MS);
	vx_sleep_ns(4 * MS);
	dispatch_sync_f(g_q, &d, warm_fn);
}

static int check(int v, const vx_log *l, char *msg, size_t len)
{
	int kind, scen; decode(v, &kind, &scen);
	int first_cancel_ret = -1, cancelh = -1, ncancelh = 0, open_handler = 0, last_end = -1;
	int starts_after_cancel = 0;
	for (uint32_t i = 0; i < l->n; i++) {
		const vx_event *e = &l->ev[i];
		if (e->kind == EV_CANCEL_RET && first_cancel_ret < 0) first_cancel_ret = (int)i;
		if (e->kind == EV_START && e->id == HANDLER) {
			if (open_handler) FAILF(msg, len, "event handler re-entered (event #%u)", i);
			open_handler = 1;
			if (e->arg == 0 && kind != 3) FAILF(msg, len, "event handler invoked with dispatch_source_get_data() == 0");
			if (first_cancel_ret >= 0 && (int)i > first_cancel_ret) starts_after_cancel++;
			if (cancelh >= 0) FAILF(msg, len, "event handler started (event #%u) after the cancellation handler had started (event #%d)", i, cancelh);
		}
		if (e->kind == EV_END && e->id == HANDLER) { open_handler = 0; last_end = (int)i; }
		if (e->kind == EV_CANCELH) {
			ncancelh++; cancelh = (int)i;
			if (e->id != 1) FAILF(msg, len, "cancellation handler did not run on the source's target queue");
			if (open_handler || (last_end >= 0 && (int)i < last_end)) FAILF(msg, len, "cancellation handler started (event #%u) while an event handler invocation was in progress", i);
			if (kind >= 2 && e->arg != -1 && scen != 8) FAILF(msg, len, "cancellation handler started while the descriptor was still registered with epoll (events 0x%llx): closing it there would not be safe", (long long)e->arg);
		}
		if (e->kind == EV_CANCEL_RET && e->id == 5) {
			if (open_handler) FAILF(msg, len, "dispatch_source_cancel_and_wait returned (event #%u) while the event handler was still running", i);
			if (kind >= 2 && e->arg != -1) FAILF(msg, len, "dispatch_source_cancel_and_wait returned while the descriptor was still registered with epoll");
		}
	}
	if (scen == 9 && ev_count(l, EV_START, HANDLER)) FAILF(msg, len, "event handler ran although the source was cancelled before it was ever activated");
	if (scen == 9 && ev_count(l, EV_CANCEL_RET, 5) != 1) FAILF(msg, len, "dispatch_source_cancel_and_wait did not return");
	if (scen != 5 && scen != 9 && ncancelh != 1) FAILF(msg, len, "cancellation handler ran %d times (expected exactly once)", ncancelh);
	if (scen == 0 && ev_count(l, EV_START, HANDLER)) FAILF(msg, len, "event handler ran although the source was cancelled before activation");
	if (scen == 8) {
		if (ev_count(l, EV_CANCELH2, 0) != 1) FAILF(msg, len, "the sibling's cancellation handler ran %d times", ev_count(l, EV_CANCELH2, 0));
		int c2 = ev_first(l, EV_CANCELH2, 0);
		if (l->ev[c2].arg != -1) FAILF(msg, len, "the last source on the descriptor was cancelled but the descriptor is still registered with epoll (events 0x%llx)", (long long)l->ev[c2].arg);
		for (uint32_t i = 0; i < l->n; i++) if (l->ev[i].kind == EV_START && l->ev[i].id == HANDLER2 && (int)i > c2) FAILF(msg, len, "the sibling's event handler started after its cancellation handler");
	}
	if ((scen == 1 || scen == 2 || scen == 5 || scen == 7 || scen == 8) && starts_after_cancel)
		FAILF(msg, len, "event handler started %d time(s) after the cancel %s had returned", starts_after_cancel,
				(scen == 1 || scen == 8) ? "issued from the handler" : scen == 2 ? "issued from an item on the target queue" : scen == 7 ? "issued from the registration handler (on the target queue)" : "_and_wait");
	if ((scen == 3 || scen == 4 || scen == 6) && starts_after_cancel > 1)
		FAILF(msg, len, "event handler started %d times after dispatch_source_cancel had returned on another thread (at most the one committed invocation is allowed)", starts_after_cancel);
	return 0;
}

const vx_harness h_cancel = { "cancel", "C16", nvariants, describe, run, check, 1, 6ull * 1000000000ull };
