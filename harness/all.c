#include "../engine/vx.h"
extern const vx_harness h_once, h_sema, h_q01;
const vx_harness *const vx_harnesses[] = {
	&h_once,
	&h_sema,
	&h_q01,
	0
};
