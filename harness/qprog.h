// qprog — tiny DSL for client programs over queue graphs, shared by the
// C01–C06/C10 harnesses.  A program is a string:
//
//   "<queues> | <ops of thread 0> | <ops of thread 1> [| <ops of thread 2>]"
//
// queues:  Kn[>t][:opt]  n = index (must be ascending from 0), t = target index
//   K = S serial, C concurrent, N concurrent narrowed to width 2, W workloop,
//       G the default-priority global queue (not created), M the main queue,
//       I serial created initially inactive, retargeted twice, then activated in warm-up
// ops:     <op><queue>   op =
//   a async_f   b barrier_async_f   g group_async_f   s sync_f   B barrier_sync_f
//   w async_and_wait_f   A apply(2)   3 apply(3)
//   h sync_f whose body stays in flight until no other thread can run (quiescence), or returns at once if every other
//     client thread has already returned from all of its submissions (like hold;, for this one item, on any thread,
//     and safe when another thread's sync item can end up queued behind a barrier that waits for this one)
//   k async of a block object created with DISPATCH_BLOCK_BARRIER
//   p async_f then wait (scheduler-level) until that item has finished ("ping-pong")
//   U suspend  R resume  (C06)   z the client thread sleeps 1 virtual ms (queue index ignored)
//   r async an item that calls dispatch_suspend and dispatch_resume on its own queue from inside its body
//   x async an item that blocks on a semaphore   y async an item that releases every x item
//     (pool exhaustion: the x items park every pool thread; y is queued behind them)
// program flags (before the queues, each followed by ';'):
//   gate;   item bodies block on a gate opened only after every client thread has
//           returned from all of its submissions (async must never wait for an item)
//   cold;   no warm-up: the first push to each queue and the pool start-up are explored
//   hold;   bodies of the synchronously executed items (s, B, w) of THREAD 0 stay in flight until every
//           other client thread has returned from all its submissions ("reader inside, barrier arriving" without a preemption)
//   slow;   item bodies block for 1 virtual ms between START and END (a block is a free context
//           switch, so the maximal overlap the library allows shows up without any preemption)
#ifndef QPROG_H
#define QPROG_H
#include "hcommon.h"

#define QP_MAXQ 5
#define QP_MAXT 3
#define QP_MAXOPS 4

typedef struct { char kind; int target; } qp_qdef;
typedef struct { char op; int q; } qp_op;
typedef struct {
	const char *text;
	int gate, cold, slow, hold;
	int nq; qp_qdef q[QP_MAXQ];
	int nthr; int nops[QP_MAXT]; qp_op ops[QP_MAXT][QP_MAXOPS];
} qprog;

int  qp_parse(const char *text, qprog *p);          // 0 ok
void qp_run_main(const qprog *p);                   // M0 first: scripts on client threads, thread 0 in dispatch_main()
void qp_run(const qprog *p);                        // builds queues, warm-up, focus, runs, waits for quiescence
int  qp_check(const qprog *p, const vx_log *l, char *msg, size_t len); // all queue oracles
int  qp_item_id(int thread, int opidx);             // item id of an op (apply: base id, iterations add 1000*(i+1))

// generic harness plumbing over a NULL-terminated table of program strings
int  qp_table_len(const char *const *tab);
void qp_table_describe(const char *const *tab, int v, char *b, size_t n);
void qp_table_run(const char *const *tab, int v);
int  qp_table_check(const char *const *tab, int v, const vx_log *l, char *msg, size_t len);

#define QP_HARNESS(sym, hname, prop, table, timedev) \
	static int sym##_nv(void) { return qp_table_len(table); } \
	static void sym##_desc(int v, char *b, size_t n) { qp_table_describe(table, v, b, n); } \
	static void sym##_run(int v) { qp_table_run(table, v); } \
	static int sym##_check(int v, const vx_log *l, char *m, size_t n) { return qp_table_check(table, v, l, m, n); } \
	const vx_harness sym = { hname, prop, sym##_nv, sym##_desc, sym##_run, sym##_check, timedev, 0 }

#endif
