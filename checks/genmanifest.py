#!/usr/bin/env python3
"""Regenerates /verif/MANIFEST.json from the table below (single source of truth)."""
import json, subprocess

HOOK_COMMITS = subprocess.run("git -C /repo log --format=%H --grep='^verif hooks' ", shell=True,
                              stdout=subprocess.PIPE, text=True).stdout.split()

SC = ("Trusted base: the vx scheduler and its emulation of futex/sem/epoll/timerfd/clocks (engine/vx.c), the harness and its oracle, "
      "clang-14 ASan. Exploration is sequentially consistent at the granularity of hooked atomics/blocking calls; bounds as stated in the evidence file.")

CLAIMED = {
    "C09": dict(engine="dsched", technique="stateless model checking of the real code: exhaustive enumeration of all schedules with <=k preemptions under a serialising scheduler",
                text="Every schedule with at most k preemptions (k=2..4 depending on caller count) of 2-4 racing dispatch_once_f callers plus a late caller, "
                     "through both the out-of-line function and the inline fast path, is executed on the real library; the oracle checks initialiser count = 1 and every "
                     "return after the initialiser's end, and a stuck witness catches lost broadcasts.",
                design_ref="DESIGN.md §4 C09", note=SC),
}

SEQ = ("Trusted base: the reference model written in the driver, clang-14 ASan, the enumeration bound stated in the evidence. "
       "Only the enumerated scope is decided; it is decided completely (exhaustive flag in the evidence).")

CLAIMED["C12"] = dict(engine="seqx", technique="bounded exhaustive input enumeration (full cross product of a boundary lattice) of the real functions against a 128-bit reference model",
    text="dispatch_time and dispatch_walltime are run on the full cross product of a boundary lattice of bases (all three clock encodings, NOW constants, FOREVER, every 2^k+-j) and deltas, "
         "plus timespec boundary values, under real and virtual clock readings; each result is compared with exact 128-bit arithmetic (same clock, exact shift or legitimate saturation), "
         "monotonicity in delta is walked per base, and waits on already-elapsed results must not block.",
    design_ref="DESIGN.md §5 C12", note=SEQ)

CLAIMED["C13"] = dict(engine="seqx", technique="explicit-state breadth-first search over operation terms with canonical-state de-duplication, every term checked against a byte-string reference model on the real code under ASan",
    text="All dispatch_data terms over three leaves (five leaf-kind configurations: block/free/default/none/function destructors) up to a record/byte/depth bound are built with the real "
         "concat/subrange/map/copy_region (every offset and length, including out-of-range), de-duplicated on the canonical region list, and each is checked for size, apply tiling, map bytes, "
         "copy_region containment and ASan cleanliness; handles of small terms are released in every order with destructor-exactly-once and not-before-last-release checks.",
    design_ref="DESIGN.md §5 C13", note=SEQ)
CLAIMED["C18"] = dict(engine="seqx", technique="exhaustive enumeration of the attribute table (all tuples x all constructor orders, closure under constructor application) and of the dispatch_get_global_queue identifier/flag space against a table model",
    text="Every one of the 4032 attribute tuples is built through every order of the constructors, must intern to one pointer, be injective, and the created queue must report label, QoS class "
         "(platform clamp only for unsupported classes), relative priority; concurrency and initial inactivity are observed behaviourally on 12 representatives. dispatch_get_global_queue is called "
         "on the full cross product of identifiers (all 16-bit values, QoS constants and neighbours, wide values) and flags: defined ids map to the documented class's queue (by label and pointer identity), others to NULL.",
    design_ref="DESIGN.md §5 C18", note=SEQ + " The queue-specific-data / dispatch_assert_queue half of C18 is decided by dsched tasks of the same check when listed in the evidence.")

CLAIMED["C20"] = dict(engine="seqx", technique="bounded exhaustive input enumeration: every byte string up to a length bound over a byte-class alphabet x every fragmentation x every format pair, on the real transforms under ASan against reference codecs",
    text="Every byte string up to the bound, in every fragmentation into separately allocated regions (so ASan sees each region edge), is pushed through every accepted format pair; oracles: "
         "Base32/Base32Hex/Base64 decode(encode(s)) = s and equals an RFC 4648 reference regardless of fragmentation of input or of the encoded text; UTF-8<->UTF-16 round trip of well-formed text modulo a "
         "leading BOM; for arbitrary input NULL or output accepted by the inverse; no ASan report or trap, each attributed to the exact (bytes, fragmentation, pair).",
    design_ref="DESIGN.md §5 C20", note=SEQ)

NOT_YET = {}

def main():
    props = [json.loads(l) for l in open("/verif/properties.jsonl")]
    checks = []
    na = []
    for p in props:
        i = p["id"]
        if i in CLAIMED:
            c = CLAIMED[i]
            checks.append({
                "property_id": i,
                "quick_cmd": "bin/check %s --tier quick" % i,
                "thorough_cmd": "bin/check %s --tier thorough" % i,
                "evidence_file": "/verif/evidence/%s.json" % i,
                "replay_cmd_template": "bin/check %s --replay {path}" % i,
                "engine": c["engine"],
                "level_claimed": {"category": "model_checking", "text": c["text"], "design_ref": c["design_ref"]},
                "level_note": c["note"],
                "technique": c["technique"],
            })
        else:
            na.append({"property_id": i, "reason": NOT_YET.get(i, "check not built yet in this session (planned, see DESIGN.md section 4/5); not claimed until its quick and thorough tiers have been run end-to-end")})
    m = {
        "version": 1,
        "setup_cmd": "bin/setup",
        "hooks": {
            "guard": "DISPATCH_VERIF",
            "enable": "bin/buildlib: cmake -S /repo -B /verif/build/lib -DBUILD_SHARED_LIBS=OFF -DBUILD_TESTING=OFF -DCMAKE_C_COMPILER=clang-14 "
                      "-DCMAKE_C_FLAGS='-DDISPATCH_VERIF=1 -DDISPATCH_WAIT_SPINS=2 -DDISPATCH_CONTENTION_SPINS_MAX=3 -DDISPATCH_CONTENTION_SPINS_MIN=1 -fsanitize=address'",
            "baseline_off_cmd": "cmake --build /repo/_build && ctest --test-dir /repo/_build -j8 --timeout 900",
            "source_commits": HOOK_COMMITS,
            "add_only": True,
        },
        "engines": [
            {"name": "dsched", "path": "engine/", "serves_properties": sorted(i for i, c in CLAIMED.items() if "dsched" in c["engine"]),
             "kind_free_text": "stateless model checker: real libdispatch under a serialising scheduler (hooked atomics + link-time wrapped futex/sem/epoll/timerfd/clock), "
                               "deviation-bounded exhaustive DFS, one forked ASan process per schedule"},
            {"name": "seqx", "path": "seqx/", "serves_properties": sorted(i for i, c in CLAIMED.items() if "seqx" in c["engine"]),
             "kind_free_text": "bounded exhaustive enumeration of operation sequences / input lattices against reference models, on the real code under ASan"},
        ],
        "checks": checks,
        "not_applicable": na,
        "notes": "All checks run the implementation itself; see DESIGN.md. Exit 2 from a check means the machinery failed (build error, nondeterminism, engine gap), never a property verdict.",
    }
    json.dump(m, open("/verif/MANIFEST.json", "w"), indent=1)
    print("MANIFEST.json: %d claimed, %d not claimed" % (len(checks), len(na)))

if __name__ == "__main__":
    main()
