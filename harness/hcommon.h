// shared vocabulary of the dsched harnesses
#ifndef HCOMMON_H
#define HCOMMON_H
#include <dispatch/dispatch.h>
#include <stdint.h>
#include <stdio.h>
#include <stdlib.h>
#include <string.h>
#include "../engine/vx.h"

#define MS 1000000ull

// item body: START; point; END  (the point makes overlaps observable)
static inline void item_body(int id)
{
	vx_ev(EV_START, id, 0);
	vx_point();
	vx_ev(EV_END, id, 0);
}

// predicate helpers for vx_wait_until
static inline int pred_int_ge(void *p) { int **a = p; return *a[0] >= (int)(intptr_t)a[1]; }

#define FAILF(msg, len, ...) do { snprintf(msg, len, __VA_ARGS__); return 1; } while (0)

#endif
