#include "../engine/vx.h"
extern const vx_harness h_once, h_sema, h_q01, h_q02, h_q03, h_q04, h_q04x, h_q05, h_group, h_source, h_suspend, h_apply, h_block, h_life, h_timer, h_cancel, h_io, h_spec, h_specrace, h_mainrl;
const vx_harness *const vx_harnesses[] = {
	&h_once,
	&h_sema,
	&h_q01, &h_q02, &h_q03, &h_q04, &h_q04x, &h_q05,
	&h_group,
	&h_source,
	&h_suspend,
	&h_apply,
	&h_block,
	&h_life,
	&h_timer,
	&h_cancel,
	&h_io,
	&h_spec,
	&h_specrace,
	&h_mainrl,
	0
};
