#include <dispatch/dispatch.h>
#include <dispatch/private.h>
#include <stdio.h>
#include <unistd.h>
static void f(void *c){ printf("item %ld\n",(long)c); }
int main(){
  dispatch_workloop_t w = dispatch_workloop_create("wl");
  dispatch_queue_t q = dispatch_queue_create_with_target("q", DISPATCH_QUEUE_SERIAL, (dispatch_queue_t)w);
  dispatch_suspend(q);
  dispatch_async_f(q,(void*)1,f);
  dispatch_async_f(q,(void*)2,f);
  dispatch_async_f(q,(void*)3,f);
  dispatch_resume(q);
  sleep(1);
  printf("done\n");
  return 0;
}
