#!/usr/bin/env python3
"""Regenerates /verif/MANIFEST.json from the table below (single source of truth)."""
import json, subprocess

HOOK_COMMITS = subprocess.run("git -C /repo log --format=%H --grep='^verif hooks' ", shell=True,
                              stdout=subprocess.PIPE, text=True).stdout.split()

SC = ("Trusted base: the vx scheduler and its emulation of futex/sem/epoll/timerfd/clocks (engine/vx.c), the harness and its oracle, "
      "clang-14 ASan. Exploration is sequentially consistent at the granularity of hooked atomics/blocking calls; bounds as stated in the evidence file.")

CLAIMED = {
    "C09": dict(engine="dsched", technique="stateless model checking of the real code: exhaustive enumeration of all schedules with <=k preemptions under a serialising scheduler",
                text="Every schedule with at most k preemptions (k=2..4 depending on caller count) of 2-4 racing dispatch_once_f callers plus a late caller, "
                     "through both the out-of-line function and the inline fast path, is executed on the real library; the oracle checks initialiser count = 1 and every "
                     "return after the initialiser's end, and a stuck witness catches lost broadcasts.",
                design_ref="DESIGN.md §4 C09", note=SC),
}

SEQ = ("Trusted base: the reference model written in the driver, clang-14 ASan, the enumeration bound stated in the evidence. "
       "Only the enumerated scope is decided; it is decided completely (exhaustive flag in the evidence).")

CLAIMED["C12"] = dict(engine="seqx", technique="bounded exhaustive input enumeration (full cross product of a boundary lattice) of the real functions against a 128-bit reference model",
    text="dispatch_time and dispatch_walltime are run on the full cross product of a boundary lattice of bases (all three clock encodings, NOW constants, FOREVER, every 2^k+-j) and deltas, "
         "plus timespec boundary values, under real and virtual clock readings; each result is compared with exact 128-bit arithmetic (same clock, exact shift or legitimate saturation), "
         "monotonicity in delta is walked per base, and waits on already-elapsed results must not block.",
    design_ref="DESIGN.md §5 C12", note=SEQ)

CLAIMED["C13"] = dict(engine="seqx", technique="explicit-state breadth-first search over operation terms with canonical-state de-duplication, every term checked against a byte-string reference model on the real code under ASan",
    text="All dispatch_data terms over three leaves (five leaf-kind configurations: block/free/default/none/function destructors) up to a record/byte/depth bound are built with the real "
         "concat/subrange/map/copy_region (every offset and length, including out-of-range), de-duplicated on the canonical region list, and each is checked for size, apply tiling, map bytes, "
         "copy_region containment and ASan cleanliness; handles of small terms are released in every order with destructor-exactly-once and not-before-last-release checks.",
    design_ref="DESIGN.md §5 C13", note=SEQ)
CLAIMED["C18"] = dict(engine="seqx+dsched", technique="exhaustive enumeration of the attribute table (all tuples x all constructor orders, closure under constructor application) and of the dispatch_get_global_queue identifier/flag space against a table model",
    text="Every one of the 4032 attribute tuples is built through every order of the constructors, must intern to one pointer, be injective, and the created queue must report label, QoS class "
         "(platform clamp only for unsupported classes), relative priority; concurrency and initial inactivity are observed behaviourally on 12 representatives. dispatch_get_global_queue is called "
         "on the full cross product of identifiers (all 16-bit values, QoS constants and neighbours, wide values) and flags: defined ids map to the documented class's queue (by label and pointer identity), others to NULL. "
         "The queue-specific-data / assert half runs 928 small programs (10 hierarchy shapes incl. workloop and main-queue bottoms and a concurrent queue on the default target x every key placement x 8 submission paths incl. sync through levels, redirected items of concurrent queues, apply, async_and_wait, block objects, a suspended queue resumed with items queued) and 5 two-thread set/replace/remove/read scenarios (harness specrace: destructors exactly once, lazy key-list allocation race) "
         "under the scheduler: dispatch_get_specific = nearest level's value, dispatch_queue_get_specific per level, asserts that must hold return, asserts that must fail trap (child exit status).",
    design_ref="DESIGN.md §5 C18", note=SEQ + " " + SC)

CLAIMED["C20"] = dict(engine="seqx", technique="bounded exhaustive input enumeration: every byte string up to a length bound over a byte-class alphabet x every fragmentation x every format pair, on the real transforms under ASan against reference codecs",
    text="Every byte string up to the bound, in every fragmentation into separately allocated regions (so ASan sees each region edge), is pushed through every accepted format pair; oracles: "
         "Base32/Base32Hex/Base64 decode(encode(s)) = s and equals an RFC 4648 reference regardless of fragmentation of input or of the encoded text; UTF-8<->UTF-16 round trip of well-formed text modulo a "
         "leading BOM; for arbitrary input NULL or output accepted by the inverse; no ASan report or trap, each attributed to the exact (bytes, fragmentation, pair).",
    design_ref="DESIGN.md §5 C20", note=SEQ)

DS_TECH = "stateless model checking of the real library: exhaustive enumeration of all schedules with <=k deviations (preemptions, timeout-first choices) of small client programs under a serialising scheduler"
def _ds(i, text, ref):
    CLAIMED[i] = dict(engine="dsched", technique=DS_TECH, text=text, design_ref=ref, note=SC)
_ds("C01", "Client programs (ping-pong, racing async/sync/barrier/group_async/async_and_wait over serial, concurrent, global and chained queues, gated items so that async must not wait, cold pool) are run on the real "
    "library under every schedule within the bound; oracle: each item exactly once, every submission returns, no stuck witness (no enabled thread and no deadline, or virtual horizon passed), no library BUG log, no ASan report.", "DESIGN.md §4 C01")
_ds("C02", "Mixes of async/sync/barrier/async_and_wait/apply on one serial queue from 2-3 threads (incl. the main queue drained after dispatch_main() and serviced by a run loop through the 4CF callback with a nested turn) under every schedule within the bound; oracle: item intervals pairwise disjoint and FIFO with respect to "
    "call/return stamps and program order.", "DESIGN.md §4 C02")
_ds("C03", "Hierarchies (depth 2-3, fan-in, concurrent inner queues, serial or workloop bottom, inactive queues retargeted twice before activation) with async and sync submissions at several levels; "
    "oracle: all items sharing a serial queue/workloop in their target chains are pairwise disjoint; per-serial-queue FIFO.", "DESIGN.md §4 C03")
_ds("C04", "Barrier/non-barrier sequences (async, sync, barrier_async, barrier_sync, DISPATCH_BLOCK_BARRIER blocks, apply) on a custom concurrent queue at default width and width 2; oracle: a barrier overlaps nothing, "
    "items submitted before it finish first, items submitted after it start after it.", "DESIGN.md §4 C04")
_ds("C05", "Every synchronous hand-off edge under contention, plus the semaphore, group and once hand-off edges named by the property (core semaphore programs, once and group subsets with their own oracles); oracle: the call's return stamp follows its item's end stamp on every schedule (ordering content of the property; visibility is decided only "
    "under sequential consistency, see level_note).", "DESIGN.md §4 C05")
_ds("C06", "Suspend/resume/activate scripts and deep sequential nesting histories; oracle: no item starts while suspends-returned minus resumes-called is positive (one committed item allowed per cross-thread "
    "suspend on a serial queue), nothing before activate, everything runs after the last resume (stuck witness otherwise).", "DESIGN.md §4 C06")
_ds("C07", "Group programs; oracle: wait()=0 only if at some event of the call window every returned enter had a called leave; non-zero only after the full virtual timeout; each notify block once and only after "
    "such a balanced moment since its registration; group empty and reusable at the end.", "DESIGN.md §4 C07")
_ds("C08", "All small wait/signal programs; oracle: at every successful return successes <= value + signals started, non-zero only after the full virtual timeout, exactly value+signals-successes permits remain, "
    "no forever-waiter left behind.", "DESIGN.md §4 C08")
_ds("C15", "Merge programs on the three custom data source types and three target kinds; oracle: sum / union / membership+last-value conservation, no zero delivery, handler intervals disjoint, "
    "sentinel eventually delivered (stuck witness otherwise).", "DESIGN.md §4 C15")

_ds("C10", "dispatch_apply on seven queue kinds, n in {0,1,2,3,5}, 1-3 CPUs, nested; oracle: every index in 0..n-1 exactly once and no other, return after every iteration's end, sequential in index order on a "
    "serial hierarchy, a racing barrier never overlaps an iteration on a concurrent queue.", "DESIGN.md §4 C10")

_ds("C19", "Block-object scenarios; oracle: body at most once and exactly once unless cancelled, never after a cancel that preceded the submission, a started body always finishes; wait()=0 only after the body's end "
    "(or the submission, if skipped), non-zero only after the full virtual timeout; every notification exactly once and not before completion; testcancel true after cancel returned; no trap/ASan on any schedule.", "DESIGN.md §4 C19")

_ds("C17", "Lifetime scenarios per object type under every schedule within the bound, on an ASan build; oracle: no ASan report or trap, finalizer exactly once with the right context on the target queue and after "
    "the last item, queue-specific and data destructors exactly once and not before the last holder released, free() of the object observed (a leak is a stuck witness) and never before its last item's end, "
    "a target queue outlives the queue targeting it.", "DESIGN.md §4 C17")

CLAIMED["C11"] = dict(engine="dsched+seqx", technique="stateless model checking of timer programs on virtual clocks (all schedules with <=k deviations incl. 'timer expires first') + explicit-state BFS of the real timer heap against a sorted-multiset model",
    text="End-to-end: dispatch_after and timer-source programs run on the real library with the three clocks, timerfd and epoll owned by the scheduler; oracle inside handlers: never before the deadline / start time "
         "in force (including after dispatch_source_set_timer from the handler or before activation), cumulative dispatch_source_get_data <= interval boundaries passed, each after-block exactly once, every armed timer fires "
         "before the horizon (stuck witness otherwise; a wrong kernel clock shows as ~10^6 s off). Structural: the static double-heap code is driven through a guarded shim: BFS to a fixpoint over "
         "insert/remove/update with 12 keys while <=4-5 timers are live, and all short operation suffixes from prefilled heaps of every size 0..40 (crossing every segment growth/shrink).",
    design_ref="DESIGN.md §4 C11, §5 C11", note=SC + " " + SEQ)

_ds("C16", "Cancel at seven life-cycle points of DATA_ADD / timer / read / write sources with the manager thread, epoll and timerfd under the scheduler; oracle: no handler start after a cancel issued from the handler or from the "
    "target queue returned (at most one after a cancel from another thread), cancellation handler exactly once, on the target queue, after the last handler invocation returned and with the descriptor already "
    "removed from epoll (mirrored table), no handler after it; cancel_and_wait returns with nothing in progress and the descriptor removed. Signal sources are not covered (kernel signal delivery is not owned).", "DESIGN.md §4 C16")

CLAIMED["C14"] = dict(engine="dsched", technique="stateless model checking in I/O-point mode: exhaustive enumeration of the placements of the peer's moves (byte arrival, hang-up, close/stop) and of one injected short transfer/EINTR at the library's I/O syscalls, on the real dispatch I/O code",
    text="83 dispatch I/O scenarios on pipes and a regular file run on the real library with read/write/pread/pwrite on the watched descriptor interposed; oracle: concatenated handler data = bytes the library consumed from the "
         "descriptor (recorded by the wrapper), in order, at most the requested length and at most the high-water mark per invocation; written bytes + reported-unwritten = submitted; handler never re-entered (handlers run on a "
         "concurrent queue), done exactly once and last, stream reads complete in submission order, barrier between, ECANCELED after close, cleanup handler once and after all handlers. This is the least deep of the concurrent "
         "checks: library-internal thread interleaving is the default schedule in the quick tier.",
    design_ref="DESIGN.md §4 C14", note=SC + " In I/O-point mode only environment placements are enumerated; spurious EAGAIN and socket-specific behaviour are not modelled.")

NOT_YET = {}

def main():
    props = [json.loads(l) for l in open("/verif/properties.jsonl")]
    checks = []
    na = []
    for p in props:
        i = p["id"]
        if i in CLAIMED:
            c = CLAIMED[i]
            checks.append({
                "property_id": i,
                "quick_cmd": "bin/check %s --tier quick" % i,
                "thorough_cmd": "bin/check %s --tier thorough" % i,
                "evidence_file": "/verif/evidence/%s.json" % i,
                "replay_cmd_template": "bin/check %s --replay {path}" % i,
                "engine": c["engine"],
                "level_claimed": {"category": "model_checking", "text": c["text"], "design_ref": c["design_ref"]},
                "level_note": c["note"],
                "technique": c["technique"],
            })
        else:
            na.append({"property_id": i, "reason": NOT_YET.get(i, "check not built yet in this session (planned, see DESIGN.md section 4/5); not claimed until its quick and thorough tiers have been run end-to-end")})
    m = {
        "version": 1,
        "setup_cmd": "bin/setup",
        "hooks": {
            "guard": "DISPATCH_VERIF",
            "enable": "bin/buildlib: cmake -S /repo -B /verif/build/lib -DBUILD_SHARED_LIBS=OFF -DBUILD_TESTING=OFF -DCMAKE_C_COMPILER=clang-14 "
                      "-DCMAKE_C_FLAGS='-DDISPATCH_VERIF=1 -DDISPATCH_WAIT_SPINS=2 -DDISPATCH_CONTENTION_SPINS_MAX=3 -DDISPATCH_CONTENTION_SPINS_MIN=1 -fsanitize=address'",
            "baseline_off_cmd": "cmake --build /repo/_build && ctest --test-dir /repo/_build -j8 --timeout 900",
            "source_commits": HOOK_COMMITS,
            "add_only": True,
        },
        "engines": [
            {"name": "dsched", "path": "engine/", "serves_properties": sorted(i for i, c in CLAIMED.items() if "dsched" in c["engine"]),
             "kind_free_text": "stateless model checker: real libdispatch under a serialising scheduler (hooked atomics + link-time wrapped futex/sem/epoll/timerfd/clock), "
                               "deviation-bounded exhaustive DFS, one forked ASan process per schedule"},
            {"name": "seqx", "path": "seqx/", "serves_properties": sorted(i for i, c in CLAIMED.items() if "seqx" in c["engine"]),
             "kind_free_text": "bounded exhaustive enumeration of operation sequences / input lattices against reference models, on the real code under ASan"},
        ],
        "checks": checks,
        "not_applicable": na,
        "notes": "All checks run the implementation itself; see DESIGN.md. Exit 2 from a check means the machinery failed (build error, nondeterminism, engine gap), never a property verdict.",
    }
    json.dump(m, open("/verif/MANIFEST.json", "w"), indent=1)
    print("MANIFEST.json: %d claimed, %d not claimed" % (len(checks), len(na)))

if __name__ == "__main__":
    main()
