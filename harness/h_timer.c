// C11 — timers and dispatch_after never fire early and always fire (end-to-end half)
//
// All three virtual clocks run at the same rate from distinct bases, so "not before the deadline
// on the clock it was expressed in" is: virtual time at the handler >= virtual time at arming +
// delay; programming the kernel timer on the wrong clock shows up as a fire that is ~10^6 s off
// (early => caught here, late => never fires before the horizon => stuck witness).
#include "hcommon.h"
#include <dispatch/private.h>

enum { CK_UPTIME, CK_MONO, CK_WALL };
static const char *const CKN[] = { "uptime clock (dispatch_time)", "monotonic clock (DISPATCH_MONOTONICTIME_NOW)", "wall clock (dispatch_walltime)" };
static const int64_t DELAYS[] = { -1 * (int64_t)MS, 0, 1 * (int64_t)MS, 1000 * (int64_t)MS };
static const char *const DN[] = { "1 ms in the past", "now", "+1 ms", "+1 s" };
#define N_AFTER 12
static const char *const OTHER[] = {
	"periodic timer source: start +1 ms, interval 1 ms, 4 firings then cancel",
	"periodic timer on the wall clock: start +2 ms, interval 1 ms",
	"three dispatch_after (+3 ms, +1 ms, +2 ms) armed in that order",
	"victim dispatch_after +2 ms among a periodic timer (1 ms) that is cancelled at its second firing",
	"timer re-armed from its own handler: first +1 ms, then set_timer(+5 ms) from the handler",
	"set_timer replaced before activation: (+1 ms) then (+4 ms), activate",
	"timer suspended across its deadline (+1 ms), resumed at +3 ms",
	"two threads arm dispatch_after (+1 ms, +2 ms) concurrently",
	"one-shot timer source (interval FOREVER) +1 ms, racing dispatch_after +1 ms on the monotonic clock",
	"timer with leeway 1 ms: start +1 ms, interval 2 ms, 3 firings",
	"armed lone timer (+60 s, beyond the horizon) re-set from the main thread to +2 ms: must follow the new settings",
	"armed timer (+60 s) re-set to +2 ms while another timer (+4 ms) is pending",
	"armed uptime timer (+60 s) re-set to the wall clock (+2 ms) while a wall-clock dispatch_after (+4 ms) is pending",
	"armed wall-clock timer (+60 s) re-set to the uptime clock (+3 ms) while two uptime dispatch_after (+2 ms, +5 ms) are pending",
	"one-shot timer (+1 ms) fires while its source is suspended, is re-set to +5 ms while still suspended, then resumed: the stale fire must be dropped",
	"one-shot timer (+1 ms) fires while its target queue is busy with a 3 ms item, is re-set to +6 ms before the handler could run",
	"periodic timer (1 ms) whose first two handler invocations block for 2 ms each: expiries land while earlier fires are unconsumed or being consumed; no fire may be counted twice",
};
#define N_OTHER ((int)(sizeof(OTHER) / sizeof(OTHER[0])))
enum { EV_ARM = EV_USER, EV_FIRE, EV_TIMER_FIRE, EV_SETTIMER, EV_RESUME };

static dispatch_queue_t g_q;
static dispatch_source_t g_ts;
static int g_fired, g_tfires, g_v;
static unsigned long g_cum;

static dispatch_time_t mk(int clock, int64_t d)
{
	switch (clock) {
	case CK_UPTIME: return dispatch_time(DISPATCH_TIME_NOW, d);
	case CK_MONO: return dispatch_time(DISPATCH_MONOTONICTIME_NOW, d);
	default: return dispatch_walltime(NULL, d);
	}
}
static void set_timer(int clock, int64_t d, uint64_t interval, uint64_t leeway);
static void after_fn(void *ctx) { vx_ev(EV_FIRE, (int)(intptr_t)ctx, 0); vx_point(); g_fired++; }
static void arm_after(int id, int clock, int64_t d)
{
	vx_ev(EV_ARM, id, d);
	dispatch_after_f(mk(clock, d), g_q, (void *)(intptr_t)id, after_fn);
}
static void timer_fn(void *ctx)
{
	(void)ctx;
	unsigned long n = dispatch_source_get_data(g_ts);
	g_cum += n; g_tfires++;
	vx_ev(EV_TIMER_FIRE, g_tfires, (int64_t)g_cum);
	vx_point();
	switch (g_v - N_AFTER) {
	case 0: case 1: if (g_tfires >= 4) dispatch_source_cancel(g_ts); break;
	case 3: if (g_tfires >= 2) dispatch_source_cancel(g_ts); break;
	case 4:
		if (g_tfires == 1) set_timer(CK_UPTIME, 5 * (int64_t)MS, DISPATCH_TIME_FOREVER, 0);
		else dispatch_source_cancel(g_ts);
		break;
	case 9: if (g_tfires >= 3) dispatch_source_cancel(g_ts); break;
	case 16: if (g_tfires <= 2) vx_sleep_ns(2 * MS); if (g_tfires >= 3) dispatch_source_cancel(g_ts); break;
	default: dispatch_source_cancel(g_ts); break;
	}
}
static void set_timer(int clock, int64_t d, uint64_t interval, uint64_t leeway)
{
	vx_ev(EV_SETTIMER, 0, d);            // same virtual instant as the clock reading inside mk()
	dispatch_time_t start = mk(clock, d);
	dispatch_source_set_timer(g_ts, start, interval, leeway);
}
static void mk_timer(int clock, int64_t d, uint64_t interval, uint64_t leeway, int activate)
{
	g_ts = dispatch_source_create(DISPATCH_SOURCE_TYPE_TIMER, 0, 0, g_q);
	dispatch_source_set_event_handler_f(g_ts, timer_fn);
	set_timer(clock, d, interval, leeway);
	if (activate) dispatch_activate(g_ts);
}
static void t1_fn(void *arg) { (void)arg; arm_after(2, CK_UPTIME, 2 * (int64_t)MS); }
static void busy_fn(void *ctx) { (void)ctx; vx_sleep_ns(3 * MS); }
static void warm_fn(void *c) { *(int *)c = 1; }

static int nvariants(void) { return N_AFTER + N_OTHER; }
static void describe(int v, char *b, size_t n)
{
	if (v < N_AFTER) snprintf(b, n, "dispatch_after with a deadline %s on the %s", DN[v % 4], CKN[v / 4]);
	else snprintf(b, n, "%s", OTHER[v - N_AFTER]);
}
static void wait_int(int *p, int n) { int *a[2] = { p, (int *)(intptr_t)n }; vx_wait_until(pred_int_ge, a); }

static void run(int v)
{
	g_v = v; g_fired = g_tfires = 0; g_cum = 0;
	vx_set_horizon(6ull * 1000000000ull);
	g_q = dispatch_queue_create("vx.timer", NULL);
	int d = 0; dispatch_async_f(g_q, &d, warm_fn); wait_int(&d, 1);
	vx_focus_begin();
	if (v < N_AFTER) {
		arm_after(1, v / 4, DELAYS[v % 4]);
		wait_int(&g_fired, 1);
	} else switch (v - N_AFTER) {
	case 0: mk_timer(CK_UPTIME, 1 * MS, 1 * MS, 0, 1); wait_int(&g_tfires, 4); break;
	case 1: mk_timer(CK_WALL, 2 * MS, 1 * MS, 0, 1); wait_int(&g_tfires, 4); break;
	case 2: arm_after(1, CK_UPTIME, 3 * MS); arm_after(2, CK_UPTIME, 1 * MS); arm_after(3, CK_UPTIME, 2 * MS); wait_int(&g_fired, 3); break;
	case 3: mk_timer(CK_UPTIME, 1 * MS, 1 * MS, 0, 1); arm_after(1, CK_UPTIME, 2 * MS); wait_int(&g_fired, 1); wait_int(&g_tfires, 2); break;
	case 4: mk_timer(CK_UPTIME, 1 * MS, DISPATCH_TIME_FOREVER, 0, 1); wait_int(&g_tfires, 2); break;
	case 5:
		mk_timer(CK_UPTIME, 1 * MS, DISPATCH_TIME_FOREVER, 0, 0);
		set_timer(CK_UPTIME, 4 * (int64_t)MS, DISPATCH_TIME_FOREVER, 0);
		dispatch_activate(g_ts);
		wait_int(&g_tfires, 1); break;
	case 6:
		mk_timer(CK_UPTIME, 1 * MS, DISPATCH_TIME_FOREVER, 0, 1);
		dispatch_suspend(g_ts);
		vx_sleep_ns(3 * MS);
		vx_ev(EV_RESUME, 0, 0);
		dispatch_resume(g_ts);
		wait_int(&g_tfires, 1); break;
	case 7: { int th = vx_thread(t1_fn, NULL); arm_after(1, CK_UPTIME, 1 * MS); vx_join(th); wait_int(&g_fired, 2); break; }
	case 8: mk_timer(CK_UPTIME, 1 * MS, DISPATCH_TIME_FOREVER, 0, 1); arm_after(1, CK_MONO, 1 * MS); wait_int(&g_fired, 1); wait_int(&g_tfires, 1); break;
	case 9: mk_timer(CK_UPTIME, 1 * MS, 2 * MS, 1 * MS, 1); wait_int(&g_tfires, 3); break;
	case 10: case 11:
		mk_timer(CK_UPTIME, 60000 * (int64_t)MS, DISPATCH_TIME_FOREVER, 0, 1);
		if (v - N_AFTER == 11) arm_after(1, CK_UPTIME, 4 * MS);
		vx_sleep_ns(1 * MS);          // let the manager arm the kernel timer for +60 s
		set_timer(CK_UPTIME, 2 * (int64_t)MS, DISPATCH_TIME_FOREVER, 0);
		wait_int(&g_tfires, 1);
		if (v - N_AFTER == 11) wait_int(&g_fired, 1);
		break;
	case 12:   // the timer moves from one clock's heap to another's: neither heap may lose or misplace an entry
		mk_timer(CK_UPTIME, 60000 * (int64_t)MS, DISPATCH_TIME_FOREVER, 0, 1);
		arm_after(1, CK_WALL, 4 * MS);
		vx_sleep_ns(1 * MS);
		set_timer(CK_WALL, 2 * (int64_t)MS, DISPATCH_TIME_FOREVER, 0);
		wait_int(&g_tfires, 1); wait_int(&g_fired, 1);
		break;
	case 14:
		mk_timer(CK_UPTIME, 1 * MS, DISPATCH_TIME_FOREVER, 0, 1);
		dispatch_suspend(g_ts);
		vx_sleep_ns(3 * MS);
		set_timer(CK_UPTIME, 5 * (int64_t)MS, DISPATCH_TIME_FOREVER, 0);
		vx_ev(EV_RESUME, 0, 0);
		dispatch_resume(g_ts);
		wait_int(&g_tfires, 1);
		break;
	case 15:
		mk_timer(CK_UPTIME, 1 * MS, DISPATCH_TIME_FOREVER, 0, 1);
		dispatch_async_f(g_q, NULL, busy_fn);     // the target queue is occupied across the deadline
		vx_sleep_ns(2 * MS);
		set_timer(CK_UPTIME, 6 * (int64_t)MS, DISPATCH_TIME_FOREVER, 0);
		wait_int(&g_tfires, 1);
		break;
	case 16: mk_timer(CK_UPTIME, 1 * MS, 1 * MS, 0, 1); wait_int(&g_tfires, 3); break;
	case 13:
		mk_timer(CK_WALL, 60000 * (int64_t)MS, DISPATCH_TIME_FOREVER, 0, 1);
		arm_after(1, CK_UPTIME, 2 * MS); arm_after(2, CK_UPTIME, 5 * MS);
		vx_sleep_ns(1 * MS);
		set_timer(CK_UPTIME, 3 * (int64_t)MS, DISPATCH_TIME_FOREVER, 0);
		wait_int(&g_tfires, 1); wait_int(&g_fired, 2);
		break;
	}
	vx_focus_end();
	// nothing may fire again after cancellation / one-shot completion: let 5 virtual ms pass
	vx_set_horizon(vx_vt() + 1000 * MS);
	vx_sleep_ns(5 * MS);
}

static int check(int v, const vx_log *l, char *msg, size_t len)
{
	uint64_t arm_vt[16]; int64_t arm_d[16]; int nfire[16], armed[16];
	memset(arm_vt, 0, sizeof arm_vt); memset(arm_d, 0, sizeof arm_d); memset(nfire, 0, sizeof nfire); memset(armed, 0, sizeof armed);
	static const uint64_t INTERVAL[] = { 1 * MS, 1 * MS, 0, 1 * MS, 0, 0, 0, 0, 0, 2 * MS, 0, 0, 0, 0, 0, 0, 1 * MS };
	static const int WANT[] = { 4, 4, 0, 2, 2, 1, 1, 0, 1, 3, 1, 1, 1, 1, 1, 1, 3 };
	int k = v - N_AFTER;
	uint64_t interval = k >= 0 ? INTERVAL[k] : 0;
	uint64_t start = 0, first_start = 0, resume_vt = 0; int nset = 0, timer_fires = 0;
	for (uint32_t i = 0; i < l->n; i++) {
		const vx_event *e = &l->ev[i];
		if (e->kind == EV_ARM) { arm_vt[e->id] = e->vt; arm_d[e->id] = e->arg; armed[e->id] = 1; }
		if (e->kind == EV_SETTIMER) { start = e->vt + (uint64_t)e->arg; if (!nset++) first_start = start; }
		if (e->kind == EV_RESUME) resume_vt = e->vt;
		if (e->kind == EV_FIRE) {
			nfire[e->id]++;
			uint64_t dl = arm_vt[e->id] + (uint64_t)(arm_d[e->id] < 0 ? 0 : arm_d[e->id]);
			if (e->vt < dl) FAILF(msg, len, "dispatch_after block %d ran at virtual %llu ns, before its deadline %llu ns", e->id, (unsigned long long)e->vt, (unsigned long long)dl);
		}
		if (e->kind == EV_TIMER_FIRE) {
			timer_fires++;
			// 'start' is the start time of the most recent dispatch_source_set_timer issued before this invocation began
			if (e->vt < start)
				FAILF(msg, len, "timer handler invocation %d ran at virtual %llu ns, before the start time %llu ns of the settings in force%s", timer_fires,
						(unsigned long long)e->vt, (unsigned long long)start, nset > 1 ? " (set by the replacing dispatch_source_set_timer)" : "");
			if (k == 6 && e->vt < resume_vt) FAILF(msg, len, "suspended timer fired at %llu ns, before it was resumed at %llu ns", (unsigned long long)e->vt, (unsigned long long)resume_vt);
			if (interval) {
				uint64_t cum = (uint64_t)e->arg, bounds = (e->vt - first_start) / interval + 1;
				if (cum > bounds) FAILF(msg, len, "timer reported %llu fires in total at %llu ns although only %llu interval boundaries had passed since its start %llu ns",
						(unsigned long long)cum, (unsigned long long)e->vt, (unsigned long long)bounds, (unsigned long long)first_start);
			}
		}
	}
	for (int id = 1; id < 16; id++) if (armed[id] && nfire[id] != 1) FAILF(msg, len, "dispatch_after block %d ran %d times", id, nfire[id]);
	if (k >= 0) {
		// periodic timers may coalesce several intervals into one invocation: only one-shot counts are exact
		if ((k == 4 || k == 5 || k == 6 || k == 8 || (k >= 10 && k <= 15)) && timer_fires != WANT[k]) FAILF(msg, len, "one-shot timer handler ran %d times (expected %d)", timer_fires, WANT[k]);
		if (timer_fires > WANT[k]) FAILF(msg, len, "timer handler ran %d times although it was cancelled at its %dth invocation", timer_fires, WANT[k]);
	}
	return 0;
}

const vx_harness h_timer = { "timer", "C11", nvariants, describe, run, check, 1, 6ull * 1000000000ull };
