"""Task lists per property and tier.  A dsched task is one explorer run of one
(harness, variant, ncpu) with deviation bound k; a cmd task is a seqx driver."""
import json
import subprocess

import os
V = os.path.dirname(os.path.dirname(os.path.abspath(__file__)))
BUILD = os.environ.get("VERIF_BUILD", V + "/build")
_variants = None


def variants(harness):
    global _variants
    if _variants is None:
        out = subprocess.run([BUILD + "/vxh", "list"], stdout=subprocess.PIPE, text=True).stdout
        _variants = {}
        for e in json.loads(out):
            _variants.setdefault(e["harness"], []).append(e["variant"])
    return _variants.get(harness, [])


_descs = None


def descs(harness):
    global _descs
    if _descs is None:
        out = subprocess.run([BUILD + "/vxh", "list"], stdout=subprocess.PIPE, text=True).stdout
        _descs = {}
        for e in json.loads(out):
            _descs.setdefault(e["harness"], {})[e["variant"]] = e["desc"]
    return _descs.get(harness, {})


def qp_is_big(desc):
    """queue programs whose schedule tree is large: anything that runs on the thread pool
    concurrently (custom concurrent / global / inactive-retargeted queues not sitting on a serial
    queue) or has three client threads"""
    import re
    if desc.count("|") >= 3:
        return True
    queues = desc.split("|")[0]
    toks = queues.replace("gate;", "").replace("cold;", "").split()
    kinds = {}
    for t in toks:
        m = re.match(r"([A-Z])(\d)(?:>(\d))?", t)
        if m:
            kinds[int(m.group(2))] = (m.group(1), int(m.group(3)) if m.group(3) else None)
    for i, (k, tgt) in kinds.items():
        if k == "M":
            return True
        if k in "CNGI":
            # harmless if it (transitively) targets a serial queue or workloop
            j = tgt
            serial_below = False
            while j is not None:
                if kinds[j][0] in "SW":
                    serial_below = True
                j = kinds[j][1]
            if not serial_below:
                return True
    return False


def qp(harness, tier, small_k, big_k, big_mode="pb", **kw):
    out = []
    for v, d in sorted(descs(harness).items()):
        big = qp_is_big(d)
        out += ds(harness, big_k if big else small_k, [v], mode=big_mode if big else "pb", jobs=8 if big else 4, **kw)
    # cheapest first so that a deadline cuts the most expensive programs only
    out.sort(key=lambda t: (t["jobs"], t["variant"]))
    return out


def ds(harness, k, vs=None, ncpu=2, mode="pb", jobs=4, **kw):
    vs = variants(harness) if vs is None else vs
    out = []
    for v in vs:
        t = {"engine": "dsched", "harness": harness, "variant": v, "k": k, "ncpu": ncpu, "mode": mode, "jobs": jobs, "keep_going": True}
        t.update(kw)
        out.append(t)
    return out


SC_ASSUME = [
    "sequentially consistent exploration: scheduling points are the hooked C11 atomics, busy-wait iterations and wrapped blocking calls; plain racy accesses travel with the preceding step",
    "Linux/epoll/futex/POSIX-semaphore back end as built by bin/buildlib (clang-14, ASan, -DDISPATCH_VERIF)",
    "futex and semaphore wake-ups pick waiters in FIFO order",
]

SEQ_ASSUME = [
    "the reference model in the driver (seqx/*.c) states the property correctly",
    "bounded scope: only the enumerated lattice / term space is covered, completely",
    "Linux build as produced by bin/buildlib (clang-14, ASan)",
]

def _qplan(what, quick, thorough):
    return {
        "rule": "one evaluation = one complete execution of the real library under one schedule of a small client program (" + what + "); "
                "all schedules with <=k preemptions are enumerated per program; distinct = distinct API-level event logs",
        "bounds": {"quick": quick, "thorough": thorough},
        "assumptions": SC_ASSUME,
        "parallel": {"quick": 3, "thorough": 2},
        "budget_s": {"quick": 175, "thorough": 1500},
    }


PLAN = {
    "C14": dict(_qplan("", "", ""),
                rule="one evaluation = one execution of a dispatch I/O scenario (111 scenarios: stream reads of 3 bytes under every chunking x 4 lengths x 3 high-water marks, low water, bounded reads with intermediate deliveries, two reads, read-barrier-read, "
                     "close(0)/close(STOP) in flight (also with bytes buffered below the low-water mark), read after close, a read ending in ECONNRESET on a socket, a 4104-byte fragmented write into a 4 KiB pipe with a draining peer (also interrupted by STOP while a chunk is partly written), two channels on one descriptor with one of them stopped, random/stream channels on a regular file, interval delivery) in I/O-point mode: "
                     "the schedule branches only at the library's read/write/pread/pwrite on the watched descriptor, where the environment's next scripted move (peer write chunk / drain / close, the client's dispatch_io_close) may land first, at every quiescence where the order of those moves is a free choice, and one answer "
                     "per execution may become a 1-byte short transfer or EINTR; library-internal interleaving follows the default schedule",
                bounds={"quick": "all placements with <=4 deviations per scenario (peer scripts have <=5 moves, so this is every placement of every move, plus <=1 injected answer)",
                        "thorough": "<=6 deviations; plus ordinary delay-bounded exploration (every point, 1 deviation) of 13 representative scenarios"}),
    "C16": _qplan("DATA_ADD, timer, read and write sources cancelled before activation, from the handler, from an item on the target queue, from another thread while events arrive, twice, "
                  "with cancel_and_wait, racing activation, from the registration handler, with a sibling source on the same descriptor, and cancel followed by cancel_and_wait on a never-activated source; epoll registrations mirrored by the scheduler",
                  "k<=2 for the 14 smaller scenarios, k<=1 for the rest", "k<=3 / k<=2"),
    "C11": dict(_qplan("dispatch_after with past/now/+1ms/+1s deadlines on the three clocks; periodic, one-shot, re-armed, replaced-before-activation, re-set while armed (same clock and across clocks), suspended and concurrent timer populations on virtual clocks "
                       "('timer expires first' is a deviation)",
                       "end-to-end: k<=1 for all 29 programs, k<=2 for 4; heap: BFS fixpoint with <=4 live timers + prefilled sizes 0..40 x depth-2 suffixes (depth 3 at segment boundaries)",
                       "end-to-end: k<=2; heap: BFS fixpoint with <=5 live timers + prefilled sizes 0..40 x depth-3 suffixes"),
                rule="end-to-end: one evaluation = one execution of a timer program under one schedule on virtual clocks; structural: one evaluation = one operation sequence on the real double heap "
                     "checked against a sorted-multiset model (count, both minima, back-pointers, heap order in both interleaved heaps)"),
    "C17": _qplan("the last application release of a queue / source / group / semaphore / data object racing with pending or running items, suspend-resume, a queue targeting it, "
                  "notify, an item that re-submits, an item that itself drops the last reference, a block object waited on while it completes",
                  "k<=3 for the single-thread scenarios, k<=2 for the two-thread ones", "k<=4 / k<=3"),
    "C19": _qplan("one block object: submit (async / sync / group_async / direct call / dispatch_block_perform) racing cancel, wait (forever, 1 ms), notify and testcancel from 2-3 threads, "
                  "flags 0 / BARRIER on a concurrent queue / QoS flags; one block object executed by two threads at once",
                  "k<=2 for 2-thread scenarios on a serial queue, k<=1 with notify / 3 threads / concurrent queue", "k<=3 / k<=2 / k<=1"),
    "C10": _qplan("dispatch_apply with n in {0,1,2,3,5} on APPLY_AUTO / global / serial / concurrent / concurrent->serial / concurrent with a racing barrier / width-2 queues / queues that are busy (a running item or barrier) when apply is called, "
                  "nested apply(2) inside apply(2), each with 1, 2 and 3 CPUs (so n is below, at and above the helper count)",
                  "k<=2 (k<=1, and k=0 for n>=3 on 3 CPUs, with the racing barrier)", "k<=3 for n<=2, k<=2 otherwise; racing barrier k<=1/2"),
    "C06": _qplan("suspend/resume/activate scripts from 1-3 threads on one queue (racing pairs at inline depth 0/62/63, suspend from an item or a barrier item, blocked dispatch_sync, "
                  "initially-inactive queues) plus sequential nesting histories of depth 1..130 and walks across the side-counter boundaries",
                  "k<=3 for the sequential histories, k<=2 for the scripts (k<=1 on concurrent queues)", "k<=4 / k<=3 / k<=2"),
    "C07": _qplan("enter/leave/group_async/notify/wait(forever, 1 ms, now) programs on one group (and a member starting work in a second group) from 1-3 threads incl. regeneration; timeouts race through 'deadline elapses first' choices",
                  "k<=3 without queues, k<=2 with notify/group_async from 2 threads, k<=1 for 3-thread and global-queue programs", "k<=4 / k<=2 / k<=2 / k<=1"),
    "C08": _qplan("all wait(forever/1 ms/now)/signal programs of 2 threads x <=2 ops and 3 threads x 1 op on a semaphore of value 0 or 1 (232 programs; thorough adds 982 three-thread programs), final drain",
                  "k<=3 deviations (preemptions + timeout-first choices) for all 232 programs", "k<=4 for the 232 programs, k<=3 for the 982 three-thread programs"),
    "C15": _qplan("DATA_ADD/OR/REPLACE sources on serial/concurrent/global targets, 1-3 merging threads x <=3 merges, suspended-while-merging, merge-from-handler, merged-before-activation, activation-racing-the-merges and default-target (NULL) variants; a value merged from the handler must be delivered without help from a later merge; final sentinel merge",
                  "serial target: k<=2 for 4 scripts, k<=1 for the rest; pool targets: k<=1 for the 2-thread and single-thread scripts", "k<=2 everywhere except 3-thread scripts on pool targets (k<=1)"),
    "C01": _qplan("2-3 client threads, 1-3 submissions each over serial/concurrent/global/chained queues, ping-pong, gated and cold-pool variants",
                  "k<=2 for programs on serial hierarchies, k<=1 for programs that run on the pool concurrently",
                  "k<=3 / k<=2 (programs cut by the deadline report their completed bound)"),
    "C02": _qplan("mixes of async/sync/barrier/async_and_wait/apply on one serial queue from 2-3 threads, incl. the main queue drained after dispatch_main() and the main queue serviced by a run loop through the 4CF callback with a nested turn (harness mainrl)",
                  "k<=2 (k<=1 for 3-thread and pool-targeting programs)", "k<=3 / k<=2"),
    "C03": _qplan("hierarchies of depth 2-3, fan-in 2, serial/concurrent inner queues, serial or workloop bottom, retargeted inactive queues",
                  "k<=2 (k<=1 for 3-thread programs)", "k<=3 / k<=2"),
    "C04": _qplan("barrier and non-barrier items (async, sync, barrier block objects, apply) on a custom concurrent queue, default and width-2",
                  "k<=1; k=0 for the three 3-thread programs of q04x (slow-path sync reader pushing its waiter onto the drained queue with a fast-path reader inside)", "k<=2 (programs cut by the deadline report their completed bound); q04x program 0 at k<=1"),
    "C05": _qplan("every synchronous hand-off edge (sync, barrier_sync, async_and_wait, apply) contended by a second thread, over serial/concurrent/global/chained/workloop; plus the semaphore (225 core wait/signal programs), group (wait, notify) and once hand-off edges",
                  "k<=2 on serial hierarchies, k<=1 on the pool", "k<=3 / k<=2"),
    "C13": {
        "rule": "breadth-first search over terms built from 3 leaves (sizes 1,2,3; five leaf-kind configurations) with concat / subrange (all offsets and lengths incl. out-of-range) / "
                "map / copy_region, de-duplicated on the canonical region list; one evaluation = one operation application checked against a byte-string model, plus every release order "
                "of the handles of small terms; distinct = distinct byte strings observed",
        "bounds": {"quick": "<=4 records, <=8 bytes, operation depth 3, release orders for depth <=2 terms with <=4 handles",
                   "thorough": "<=6 records, <=12 bytes, depth 4 (two leaf configurations) / depth 3 (three), release orders for depth <=3"},
        "assumptions": SEQ_ASSUME,
        "parallel": {"quick": 1, "thorough": 1},
        "budget_s": {"quick": 150, "thorough": 1500},
    },
    "C20": {
        "rule": "all byte strings up to a length bound over a 15-class byte alphabet x ALL fragmentations into regions (each region its own exactly-sized malloc'ed leaf) x all 28 accepted format pairs; "
                "base encoders/decoders against an RFC 4648 reference incl. re-fragmented encoded text; well-formed text from 14 boundary code points in UTF-8/16LE/16BE x all fragmentations; "
                "one evaluation = one oracle evaluation (round trip / fail-or-invertible / ASan); distinct = distinct (pair, outcome class) results",
        "bounds": {"quick": "bytes: len<=4 over 15 classes + len 5 over 6; encoders len<=8 over 3 symbols; text <=3 code points",
                   "thorough": "bytes: len<=5 over 15 classes, len 6 over 6, len 7 over 4; encoders len<=9; text <=3 code points from 14 + 4 code points over 6"},
        "assumptions": SEQ_ASSUME + ["bytes outside the 15-class alphabet and inputs longer than the bound are not covered; little-endian host"],
        "parallel": {"quick": 1, "thorough": 1},
        "budget_s": {"quick": 150, "thorough": 1500},
    },
    "C18": {
        "rule": "attribute table: all 4032 field tuples x every constructor order (<=24) + closure under every single constructor application + invalid arguments; "
                "dispatch_get_global_queue: identifiers x 67 flag values, full cross product; distinct = distinct attribute objects + distinct global queues. "
                "Scheduled half (harness spec): 10 hierarchy shapes (serial/concurrent levels over a serial queue, a workloop or the main queue; a concurrent queue on the default target) x every key placement x 8 submission paths (incl. a suspended queue resumed with items queued) x assertion modes (928 programs), each under every schedule with <=k preemptions; "
                "dispatch_get_specific must return the nearest level's value, dispatch_assert_queue must hold for every queue of the chain and dispatch_assert_queue_not / dispatch_assert_queue on the wrong queue must trap; harness specrace: 5 scenarios of 2 threads setting / replacing / removing / reading keys of one queue "
                "(lazy allocation of the key list, destructors exactly once with the right value)",
        "bounds": {"quick": "4032 tuples x all orders, 475776 closure steps, 66601 identifiers x 67 flags; behavioural check of concurrency/inactive on 12 representative queues; spec programs k<=1; specrace k<=1 (k=0 for the two largest)",
                   "thorough": "same attribute half; identifiers -2^24..2^24 plus boundary values x 67 flags (2.2e9 calls); spec programs k<=2; specrace k<=1 (k<=2 for the racing first set)"},
        "assumptions": SEQ_ASSUME + SC_ASSUME,
        "parallel": {"quick": 3, "thorough": 3},
        "budget_s": {"quick": 150, "thorough": 900},
    },
    "C12": {
        "rule": "one evaluation = one (base, delta) or (timespec, delta) input of the boundary lattice, full cross product, compared with 128-bit reference arithmetic; "
                "distinct = distinct (clock, outcome-class) results",
        "bounds": {"quick": "1623 bases x 1094 deltas + 91 timespecs x 1094 deltas + 4 virtual clock readings + 226 waits on elapsed times",
                   "thorough": "12917 bases x 8790 deltas + 2276 timespecs x 8790 deltas (1.3e8 calls) + virtual clocks + waits"},
        "assumptions": SEQ_ASSUME,
        "parallel": {"quick": 1, "thorough": 1},
        "budget_s": {"quick": 120, "thorough": 900},
    },
    "C09": {
        "rule": "one evaluation = one complete execution of the real dispatch_once code under one schedule; schedules are "
                "enumerated exhaustively up to k preemptions; distinct = distinct API-level event logs",
        "bounds": {"quick": "2-4 racing callers + late caller, both entry points, k<=2 (k<=3 for 2-3 callers)",
                   "thorough": "2-4 racing callers + late caller, both entry points, k<=3 (k<=4 for 2 callers)"},
        "assumptions": SC_ASSUME,
        "parallel": {"quick": 4, "thorough": 2},
        "budget_s": {"quick": 170, "thorough": 1500},
    },
}


def sx(name, **kw):
    t = {"engine": "seqx", "name": name, "cmd": [BUILD + "/seqx/" + name, "--tier", "{tier}", "--json", "{json}"]}
    t.update(kw)
    return [t]


_cost_table = None
QUICK_TARGETS = {"C04": 480000, "C15": 450000, "C16": 420000, "C10": 350000}   # measured throughput differs per harness (steps per execution)
QUICK_TARGET = 360000     # executions one quick tier can complete in ~150 s on 16 idle cores (measured ~2.7k executions/s)


def _cost(t):
    """measured executions of this task (checks/costs.json, written by bin/update-costs from earlier runs);
    unknown tasks count as cheap so that they are run (and measured) rather than starved"""
    global _cost_table
    if _cost_table is None:
        try:
            _cost_table = json.load(open(os.path.join(os.path.dirname(os.path.abspath(__file__)), "costs.json")))
        except Exception:  # noqa
            _cost_table = {}
    if t.get("engine") != "dsched":
        return -1
    key = "%s:%d:%d:%s:%s:%d" % (t["harness"], t["variant"], t["k"], t.get("mode", "pb"), "full" if t.get("env", {}).get("VX_IO_FULL") else "", t.get("ncpu", 2))
    return _cost_table.get(key, 0)


def tasks_for(pid, tier):
    """cheapest first: a wall-clock budget then cuts only the most expensive programs"""
    ts = _tasks_for(pid, tier)
    if tier == "quick":
        # fit the quick tier to its budget: while the measured executions of the list exceed QUICK_TARGET, the most expensive
        # program runs one bound lower (the thorough tier keeps the nominal bounds); the evidence lists the bound each program
        # completed.  Unmeasured tasks count as 0 and are never demoted.
        def total():
            return sum(max(0, _cost(t)) for t in ts)
        guard = 0
        target = QUICK_TARGETS.get(pid, QUICK_TARGET)
        while total() > target and guard < 200:
            guard += 1
            cand = [t for t in ts if t.get("engine") == "dsched" and t["k"] > 0 and _cost(t) > 0]
            if not cand:
                break
            t = max(cand, key=_cost)
            t["k"] -= 1
            t["demoted"] = t.get("demoted", 0) + 1
    return sorted(ts, key=_cost)     # stable: equal costs keep the hand-written order


def _tasks_for(pid, tier):
    q = tier == "quick"
    if pid == "C12":
        return sx("time_c12")
    if pid == "C11":
        after = list(range(0, 12))
        other = list(range(12, 23)) + [26, 27, 28]      # 28: periodic timer with a lagging handler; 26, 27: a stale fire (suspended source / busy target queue) dropped by set_timer
        big = [23, 24, 25]          # re-set while armed with other timers pending (incl. across clocks): ~10^3 schedules at k=1, ~5*10^5 at k=2
        if q:
            return sx("heap_c11") + ds("timer", 1, after + other + big, jobs=5) + ds("timer", 2, [2, 6, 10, 17], jobs=6)
        return sx("heap_c11") + ds("timer", 2, after + other, jobs=8) + ds("timer", 1, big, jobs=4) + ds("timer", 2, big, jobs=16)
    if pid == "C13":
        return sx("data_c13")
    if pid == "C18":
        sv = variants("spec")
        race = ds("specrace", 1, [0, 1, 3], jobs=6) + ds("specrace", 0 if q else 1, [2, 4], jobs=6)
        if not q:
            race += ds("specrace", 2, [0], jobs=8)
        return sx("attrs_c18") + ds("spec", 1 if q else 2, sv, jobs=2) + race
    if pid == "C20":
        return sx("transform_c20")
    if pid == "C09":
        return (ds("once", 3 if q else 4, [0, 1]) + ds("once", 3, [2, 3]) +
                ds("once", 2 if q else 3, [4, 5], jobs=4 if q else 8))
    if pid == "C06":
        d = descs("suspend")
        seq = [v for v in sorted(d) if d[v].startswith("sequential")]
        conc = [v for v in sorted(d) if "[queue C" in d[v]]
        small = [v for v in sorted(d) if v not in seq and v not in conc]
        return (ds("suspend", 3 if q else 4, seq, jobs=2) + ds("suspend", 2 if q else 3, small) +
                ds("suspend", 1 if q else 2, conc, jobs=8))
    if pid == "C07":
        pure = list(range(0, 16)) + [42, 43, 44, 45]
        two_q = [16, 17, 18, 19, 21, 23, 24, 25, 28, 29, 30, 31, 33, 34, 35, 39, 41, 46]   # 46: re-entry inside the last leaver's window (needs k=2)
        three_q = [20, 22, 26, 27, 32, 40]
        glob = [36] if q else [36, 37]
        # 47-51: a notify registered after re-entry while the previous generation is being woken (known finding F17 lives here;
        # 50/51 make the re-entering thread block so that one preemption suffices)
        renotify = ds("group", 1, [49, 50, 51], jobs=6) + ds("group", 1 if q else 2, [47, 48], jobs=6) + ds("group", 1 if q else 2, [52, 53, 54, 55, 56, 57], jobs=6)   # 54-57: a member starting work in a second group; 52/53: blocked re-entering thread, new-generation waiter
        if not q:
            renotify += ds("group", 2, [50, 51], jobs=8)
        return (renotify + ds("group", 3 if q else 4, pure, jobs=2) + ds("group", 2, two_q, jobs=6) +
                ds("group", 1 if q else 2, three_q, jobs=8) + ds("group", 1, glob, jobs=8) +
                ds("group", 0 if q else 1, [38], jobs=8))
    if pid == "C08":
        core = [v for v, d in sorted(descs("sema").items()) if "{core}" in d]
        rest = [v for v, d in sorted(descs("sema").items()) if "{core}" not in d]
        if q:
            return ds("sema", 3, core, jobs=2)
        return ds("sema", 4, core, jobs=2) + ds("sema", 3, rest, jobs=2)
    if pid == "C10":
        out = []
        for ncpu in (1, 2, 3):
            for v in variants("apply"):
                kind, n = (v // 5, (0, 1, 2, 3, 5)[v % 5]) if v < 35 else (None, 2)
                if v >= 39:     # width-2 queue with blocking iterations: overlap is maximal already at k=0
                    out += ds("apply", 1 if q else 2, [v], ncpu=ncpu, jobs=4)
                    continue
                if kind == 5:   # racing barrier: large trees
                    if ncpu == 3 and n >= 3:
                        k = 0 if q else 1
                    else:
                        k = 1 if (q or n >= 2) else 2
                    out += ds("apply", k, [v], ncpu=ncpu, jobs=8)
                else:
                    pool = kind in (0, 1, 3, 6) or kind is None
                    heavy = pool and ncpu == 3 and n >= 3
                    if q:
                        k = 1 if heavy else 2
                    else:
                        k = 2 if heavy else 3 if (n <= 2 and not pool) else 2
                    out += ds("apply", k, [v], ncpu=ncpu, jobs=4)
        out.sort(key=lambda t: (0 if t["variant"] >= 39 else 1, t["jobs"], t["variant"]))   # cheap, high-yield variants first
        return out
    if pid == "C14":
        allv = variants("io")
        if q:
            return ds("io", 4, allv, jobs=5)
        full = [0, 5, 11, 47, 48, 52, 60, 64, 68, 73, 76, 78, 79]
        return ds("io", 6, allv, jobs=5) + ds("io", 1, full, mode="db", jobs=8, env={"VX_IO_FULL": 1})
    if pid == "C16":
        allv = variants("cancel")           # 4 source kinds x 8 life-cycle points, variant = kind * 8 + point
        small = [v for v in allv if v < 32 and (v % 8 in (0, 1, 5, 6, 7) or v in (2, 3))]     # 32, 33: sibling source on the same descriptor
        if q:
            return ds("cancel", 1, [v for v in allv if v not in small], jobs=6) + ds("cancel", 2, small, jobs=6)
        return ds("cancel", 2, [v for v in allv if v not in small], jobs=8) + ds("cancel", 3, small, jobs=8)
    if pid == "C17":
        tiny = [0, 4, 6, 7, 9, 10, 11, 15]      # 15: dispatch I/O channel closed twice (default schedule only: I/O-only mode)
        rest = [1, 2, 3, 5, 8, 12, 13, 14]     # 13/14: block object + dispatch_block_wait (who consumes the queue's references)
        return ds("life", 3 if q else 4, tiny, jobs=4) + ds("life", 2 if q else 3, rest, jobs=8)
    if pid == "C19":
        small = [0, 1, 4, 5, 7, 8, 10, 11, 12, 14, 18, 20, 21, 22, 23, 24, 25, 26, 29, 30]     # 25-27: one block object executed twice; 28-30: cancelled, then submitted synchronously
        mid = [2, 3, 6, 9, 13, 15, 16, 19, 27, 28]
        return (ds("block", 2 if q else 3, small, jobs=4) + ds("block", 1 if q else 2, mid, jobs=8) +
                ds("block", 0 if q else 1, [17], jobs=8))
    if pid == "C15":
        out = []
        for v in variants("source"):
            ty, tk, sc = v % 3, (v // 3) % 3, v // 9
            if sc in (9, 10, 11, 12):       # scripts on the default (NULL) target: the target coordinate is ignored by the harness, run them once
                if tk == 0:
                    out += ds("source", (2 if sc == 9 else 1) + (0 if q else 1), [v], jobs=6)
                continue
            if tk == 0:
                k = 2 if (not q or sc in (0, 4, 5, 6, 7)) else 1
                out += ds("source", k, [v], jobs=6)
            elif q:
                if (sc == 0 and (tk == 1 or ty == 0)) or sc == 6 or sc == 7:
                    out += ds("source", 1, [v], jobs=8)
                elif sc == 8 or sc == 13:          # activation racing the merges / self-suspending handler on a pool target: ~10^2 schedules at k=0, 3*10^4 at k=1
                    out += ds("source", 0, [v], jobs=4)
            elif sc == 8 or sc == 13:
                out += ds("source", 1, [v], jobs=8)
            else:
                out += ds("source", 1 if sc == 3 else 2, [v], jobs=8)
        out.sort(key=lambda t: (t["jobs"], t["k"], t["variant"]))
        return out
    qmap = {"C01": "q01", "C02": "q02", "C03": "q03", "C04": "q04", "C05": "q05"}
    if pid in qmap:
        extra = ds("mainrl", 2 if q else 3, [0, 1, 2], jobs=4) if pid == "C02" else []     # main queue serviced by a run loop (4CF callback), nested turn
        if pid == "C05":
            # the other hand-off edges of the property: a semaphore wait satisfied by a signal, a group wait / notify observing
            # the leaves, dispatch_once returning after the initialiser (return-after-completion = ordering under SC exploration)
            core = [v for v, d in sorted(descs("sema").items()) if "{core}" in d]
            extra = (ds("sema", 2 if q else 3, core, jobs=2) + ds("once", 2 if q else 3, [0, 1, 2, 3], jobs=4) +
                     ds("group", 2 if q else 3, [0, 3, 4, 6, 9, 16, 18], jobs=4))
        if pid == "C04":
            # q04x: a slow-path sync reader pushing its waiter onto the drained queue while a fast-path reader is inside (seeded C04-e
            # needs one preemption there: ~10^6 schedules, thorough tier only; the quick tier covers the programs at k=0)
            extra = ds("q04x", 0, [0, 1, 2], jobs=8) if q else ds("q04x", 1, [0], jobs=16) + ds("q04x", 0, [1, 2], jobs=8)
        return qp(qmap[pid], tier, 2 if q else 3, 1 if q else 2) + extra
    raise KeyError(pid)
