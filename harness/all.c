#include "../engine/vx.h"
extern const vx_harness h_once;
const vx_harness *const vx_harnesses[] = {
	&h_once,
	0
};
