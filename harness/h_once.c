// C09 — dispatch_once: initialiser exactly once, nobody returns before it ended
#include <dispatch/dispatch.h>
#include <stdio.h>
#include <stdint.h>
#include "../engine/vx.h"

// out-of-line entry point (bypasses the inline fast path macro of once.h)
#undef dispatch_once_f
extern void dispatch_once_f(dispatch_once_t *predicate, void *context, dispatch_function_t function);

#define INIT_ITEM 100
static dispatch_once_t g_pred;
static int g_inits;
static int g_inline;

static void init_fn(void *ctx)
{
	(void)ctx;
	vx_ev(EV_START, INIT_ITEM, 0);
	vx_point();
	g_inits++;
	vx_point();
	vx_ev(EV_END, INIT_ITEM, 0);
}

static void call_once(int id)
{
	vx_ev(EV_CALL, id, 0);
	if (g_inline) _dispatch_once_f(&g_pred, NULL, init_fn);   // header fast path + slow call
	else dispatch_once_f(&g_pred, NULL, init_fn);
	vx_ev(EV_RET, id, g_inits);
}

static void caller(void *arg) { call_once((int)(intptr_t)arg); }

// variants: callers 2..4  x  inline 0/1
static int nvariants(void) { return 6; }
static void describe(int v, char *b, size_t n)
{
	snprintf(b, n, "%d racing callers of dispatch_once_f via %s, plus one late caller", 2 + v / 2,
			(v & 1) ? "the inline fast path of dispatch/once.h" : "the out-of-line function");
}

static void run(int v)
{
	int n = 2 + v / 2;
	int th[4];
	g_inline = v & 1;
	g_pred = 0; g_inits = 0;
	vx_focus_begin();
	for (int i = 1; i < n; i++) th[i] = vx_thread(caller, (void *)(intptr_t)i);
	call_once(0);
	for (int i = 1; i < n; i++) vx_join(th[i]);
	call_once(9);   // late caller
	vx_focus_end();
}

static int check(int v, const vx_log *l, char *msg, size_t len)
{
	int n = 2 + v / 2;
	int s = ev_count(l, EV_START, INIT_ITEM);
	if (s != 1) { snprintf(msg, len, "initialiser ran %d times", s); return 1; }
	int ids[5] = { 0, 1, 2, 3, 9 };
	for (int i = 0; i < 5; i++) {
		if (ids[i] != 9 && ids[i] >= n) continue;
		if (ev_count(l, EV_RET, ids[i]) != 1) { snprintf(msg, len, "caller %d did not return", ids[i]); return 1; }
		if (orc_ret_after_end(l, ids[i], INIT_ITEM, msg, len)) return 1;
	}
	return 0;
}

const vx_harness h_once = { "once", "C09", nvariants, describe, run, check, 0, 0 };
