// oracle.c — pure functions over the event log
#include <stdio.h>
#include "vx.h"

int ev_first(const vx_log *l, int kind, int id)
{
	for (uint32_t i = 0; i < l->n; i++) if (l->ev[i].kind == kind && l->ev[i].id == id) return (int)i;
	return -1;
}
int ev_last(const vx_log *l, int kind, int id)
{
	for (int i = (int)l->n - 1; i >= 0; i--) if (l->ev[i].kind == kind && l->ev[i].id == id) return i;
	return -1;
}
int ev_count(const vx_log *l, int kind, int id)
{
	int c = 0;
	for (uint32_t i = 0; i < l->n; i++) if (l->ev[i].kind == kind && l->ev[i].id == id) c++;
	return c;
}
int ev_nth(const vx_log *l, int kind, int id, int n)
{
	for (uint32_t i = 0; i < l->n; i++) if (l->ev[i].kind == kind && l->ev[i].id == id && n-- == 0) return (int)i;
	return -1;
}

int orc_exactly_once(const vx_log *l, const int *ids, int n, char *msg, size_t len)
{
	for (int i = 0; i < n; i++) {
		int s = ev_count(l, EV_START, ids[i]), e = ev_count(l, EV_END, ids[i]);
		if (s != 1 || e != 1) {
			snprintf(msg, len, "item %d started %d times and ended %d times (expected exactly once)", ids[i], s, e);
			return 1;
		}
		if (ev_first(l, EV_START, ids[i]) > ev_first(l, EV_END, ids[i])) {
			snprintf(msg, len, "item %d ended before it started", ids[i]);
			return 1;
		}
	}
	return 0;
}

int orc_disjoint(const vx_log *l, const int *ids, int n, char *msg, size_t len)
{
	// sweep: at most one of the listed items may be open at any time
	int open_id = -1;
	for (uint32_t i = 0; i < l->n; i++) {
		const vx_event *e = &l->ev[i];
		if (e->kind != EV_START && e->kind != EV_END) continue;
		int listed = 0;
		for (int j = 0; j < n; j++) if (ids[j] == e->id) listed = 1;
		if (!listed) continue;
		if (e->kind == EV_START) {
			if (open_id != -1) {
				snprintf(msg, len, "item %d started (event #%u, thread %u) while item %d was still running", e->id, e->seq, e->thread, open_id);
				return 1;
			}
			open_id = e->id;
		} else {
			if (open_id == e->id) open_id = -1;
		}
	}
	return 0;
}

int orc_ret_after_end(const vx_log *l, int op, int item, char *msg, size_t len)
{
	int r = ev_first(l, EV_RET, op), e = ev_first(l, EV_END, item);
	if (r < 0) return 0;
	if (e < 0 || e > r) {
		snprintf(msg, len, "synchronous call %d returned (event #%d) before its item %d finished (event #%d)", op, r, item, e);
		return 1;
	}
	return 0;
}

int orc_fifo(const vx_log *l, int opA, int itemA, int opB, int itemB, char *msg, size_t len)
{
	int ra = ev_first(l, EV_RET, opA), cb = ev_first(l, EV_CALL, opB);
	if (ra < 0 || cb < 0 || ra > cb) return 0;
	int ea = ev_first(l, EV_END, itemA), sb = ev_first(l, EV_START, itemB);
	if (sb < 0) return 0;
	if (ea < 0 || ea > sb) {
		snprintf(msg, len, "submission %d returned before submission %d began, but item %d started (event #%d) before item %d finished (event #%d)",
				opA, opB, itemB, sb, itemA, ea);
		return 1;
	}
	return 0;
}
