// Program tables for the queue properties C01–C05 (DSL: qprog.h)
#include "qprog.h"

// C01: exactly once, nothing stranded, async never waits
static const char *const T_C01[] = {
	// ping-pong on one serial queue: the empty<->non-empty hand-off (DIRTY re-check)
	"S0 | p0 p0",
	"S0 | p0 a0 | a0",
	"S0 | a0 a0 | a0",
	"S0 | a0 s0 | a0",
	"S0 | a0 | s0",
	"S0 | a0 | B0",
	"S0 | s0 | s0",
	"S0 | a0 | w0",
	"S0 | b0 | a0",
	"S0 | g0 | a0",
	"C0 | a0 | a0",
	"C0 | a0 b0 | a0",
	"C0 | b0 | s0",
	"C0 | a0 | B0",
	"C0 | s0 | w0",
	"S0 S1>0 | a1 | a0",
	"S0 S1>0 | a1 | s1",
	"S0 C1>0 | a1 a1 | s1",
	"S0 S1>0 S2>1 | a2 | s2",
	"G0 C1>0 | a1 | a1",
	"G0 S1>0 | p1 p1",
	"G0 | a0 | a0",
	"G0 | a0 a0",
	"gate; S0 | a0 a0 | a0",
	"gate; C0 | a0 b0 | a0",
	"gate; G0 | a0 | a0",
	"cold; S0 | a0 | a0",
	"cold; G0 | a0 | a0",
	"cold; S0 | a0 s0",
	// pool exhaustion: every pool thread (2 CPUs) is parked inside an item waiting for an item queued later on the same global queue;
	// the pool monitor's 1 s tick (virtual) has to add a thread
	"G0 | x0 x0 y0",
	"G0 | x0 x0 | y0",
	"G0 C1>0 | x1 x1 y1",
	// a sync reader inside a concurrent queue while a barrier arrives from another thread (the reader's leave must re-drive the queue)
	"hold; C0 | s0 | b0",
	"hold; C0 | s0 s0 | b0 a0",
	"hold; N0 | s0 | a0 b0",
	// a serial queue on top of a private concurrent queue: contended sync on the serial queue while the concurrent target is busy
	"slow; C0 S1>0 | a1 s1 a0 | b0",
	"slow; C0 S1>0 | a1 s1 s1 | b0 a0",
	0
};
QP_HARNESS(h_q01, "q01", "C01", T_C01, 0);

// C02: one serial queue (incl. initially-inactive/retargeted 'I'), mixes of all submission forms
static const char *const T_C02[] = {
	"S0 | a0 a0 | a0",
	"S0 | a0 s0 | a0",
	"S0 | a0 s0 | s0",
	"S0 | s0 a0 | a0 s0",
	"S0 | a0 B0 | s0",
	"S0 | a0 w0 | a0",
	"S0 | a0 w0 | B0",
	"S0 | b0 s0 | a0",
	"S0 | s0 s0 | B0",
	"S0 | w0 | w0",
	"S0 | a0 a0 s0",
	"S0 | a0 w0 a0 B0",
	"S0 | a0 | s0 | B0",
	"S0 | a0 | a0 | s0",
	"S0 | 30 | a0",
	"I0 | a0 s0 | a0",
	"G0 S1>0 | a1 s1 | a1",
	"slow; S0 | a0 a0 s0 | a0 w0",
	"slow; S0 | a0 B0 | s0 a0",
	// the main queue, drained after dispatch_main() (thread 0 leaves; every script is a client thread)
	"M0 | a0 a0 | a0",
	"M0 | a0 s0 | a0",
	"M0 | s0 | s0 a0",
	"M0 S1>0 | a1 s0 | a0 s1",
	// async_and_wait through a hierarchy whose bottom queue is busy (the bottom's drainer may run the item in place), then more work on the bottom
	"S0 S1>0 | a0 w1 s0",
	"S0 S1>0 | a0 w1 | a0 s0",
	"S0 S1>0 | a0 a0 w1 s0",
	"slow; S0 S1>0 | a0 w1 s0 | a0",
	"slow; S0 S1>0 | a0 w1 a0 s0",
	// an item that suspends and resumes its own queue from inside (the count returns to zero while the item still owns the queue)
	"S0 | r0 a0 | s0",
	"slow; S0 | r0 a0 | s0",
	"S0 | r0 | s0 | a0",
	0
};
QP_HARNESS(h_q02, "q02", "C02", T_C02, 0);

// C03: hierarchies whose bottom is a serial queue or a workloop
static const char *const T_C03[] = {
	"S0 S1>0 | a1 | a0",
	"S0 S1>0 | s1 | a0",
	"S0 S1>0 | a1 | s0",
	"S0 S1>0 S2>0 | a1 | a2",
	"S0 S1>0 S2>0 | s1 | s2",
	"S0 S1>0 S2>0 | a1 s1 | a2",
	"S0 C1>0 | a1 | a1",
	"S0 C1>0 | a1 a1 | s1",
	"S0 C1>0 | b1 | a1 s0",
	"S0 C1>0 S2>1 | a2 | a1",
	"S0 C1>0 S2>1 | s2 | a0",
	"S0 S1>0 S2>1 | a2 | s1",
	"S0 S1>0 S2>1 | s2 | s0",
	"S0 C1>0 C2>0 | a1 | a2",
	"S0 C1>0 | A1 | a1",
	"S0 I1>0 | a1 | s0",
	"S0 I1>0 I2>0 | a1 | a2",
	"W0 S1>0 | a1 | a0",
	"W0 S1>0 S2>0 | a1 | a2",
	"W0 C1>0 | a1 | a1 s1",
	"W0 S1>0 | s1 | a0",
	"W0 | a0 | w0",
	"S0 S1>0 | a1 | a0 | s1",
	// two consecutive concurrent levels above the serial bottom: a sync waiter redirected through both must still take the bottom
	"S0 C1>0 C2>1 | b2 s2 | a0",
	"S0 C1>0 C2>1 | b2 | s2 | a0",
	"S0 C1>0 C2>1 | a2 s2 | a1",
	"S0 C1>0 C2>1 | b2 s2 | s1",
	"S0 C1>0 C2>1 S3>2 | b2 | s3 | a0",
	"slow; S0 C1>0 C2>0 | a1 a1 | a2 s2",
	"slow; S0 C1>0 C2>1 | a2 a2 s2 | a1 b1",
	"slow; W0 C1>0 | a1 a1 | a1 w0",
	// siblings under one serial target, a contended sync on one sibling while the other sibling's item holds the target
	"slow; S0 S1>0 S2>0 | a1 s1 | a2",
	"slow; S0 S1>0 S2>0 | a1 s1 | s2",
	"slow; S0 S1>0 S2>0 | a1 B1 | a2 a2",
	"slow; S0 S1>0 S2>0 | a1 w1 | a2",
	"slow; S0 S1>0 S2>0 | s1 | s1 | s2",
	// async_and_wait on a free upper level while the lower level is held by an asynchronous drainer; afterwards the upper level must be usable
	"S0 S1>0 | a0 w1 a1",
	"S0 S1>0 | a0 w1 s1",
	"slow; S0 S1>0 | a0 w1 a1 s1",
	"slow; S0 S1>0 S2>1 | a0 w2 a2 s1",
	"slow; S0 C1>0 | a0 w1 a1 B1",
	0
};
QP_HARNESS(h_q03, "q03", "C03", T_C03, 0);

// C04: barriers on custom concurrent queues (C = default width, N = width narrowed to 2)
static const char *const T_C04[] = {
	"C0 | a0 b0 | a0",
	"C0 | b0 a0 | a0",
	"C0 | a0 | B0",
	"C0 | s0 | B0",
	"C0 | s0 | b0",
	"C0 | B0 | B0",
	"C0 | b0 | b0",
	"C0 | a0 k0 | a0",
	"C0 | s0 B0 | a0",
	"C0 | a0 b0 a0",
	"C0 | a0 a0 b0 a0",
	"C0 | A0 | b0",
	"C0 | A0 | B0",
	"C0 | w0 | b0",
	"N0 | a0 b0 | a0",
	"N0 | a0 a0 | B0",
	"N0 | s0 a0 | b0 a0",
	"N0 | a0 a0 a0 | B0",
	"N0 | A0 | b0",
	"N0 | s0 | s0 | B0",
	// a barrier_sync completing (hand-over path) with readers queued behind it while another thread pushes the next barrier
	"C0 | B0 a0 | b0 a0",
	"C0 | B0 | a0 b0",
	"C0 | B0 | a0 a0 | b0",
	"C0 | B0 | a0 | B0",
	"C0 | B0 | a0 | b0",
	"slow; C0 | B0 | a0 | z0 b0",
	"slow; C0 | B0 | a0 a0 | z0 b0",
	"slow; C0 | B0 | a0 | z0 B0",
	// slow items: every overlap the queue permits is reached at k=0, barriers must still exclude
	"slow; C0 | a0 b0 a0 | a0",
	"slow; C0 | a0 a0 | B0 a0",
	"slow; N0 | a0 a0 b0 | a0",
	"slow; C0 | A0 | b0 a0",
	// suspend/resume around a queued barrier while readers are in flight: the resumed queue must not forget them
	"slow; C0 | a0 U0 b0 R0",
	"slow; C0 | a0 U0 b0 R0 | a0 a0",
	"C0 | a0 U0 b0 R0",
	"slow; N0 | a0 U0 b0 R0 | a0",
	// a sync reader queued as a waiter behind a running barrier, dequeued by the async drainer, with the next barrier right behind it
	"slow; C0 | b0 s0 | b0",
	"slow; C0 | b0 a0 s0 | b0",
	"hold; C0 | s0 | b0",
	"hold; C0 | s0 | a0 b0",
	"hold; C0 | w0 | b0 b0",
	0
};
QP_HARNESS(h_q04, "q04", "C04", T_C04, 0);

// C04, three client threads (kept apart from q04 because one preemption already costs ~10^6 schedules):
// a sync reader that lost the fast path (a barrier was queued) and pushes its waiter only after the queue has drained and gone
// idle again, with a fast-path reader already inside: the width that reader holds must survive the waiter's self-redrive
static const char *const T_C04X[] = {
	"C0 | b0 | s0 b0 | h0",
	"N0 | b0 | s0 b0 | h0",
	"C0 | b0 | w0 b0 | h0",
	0
};
QP_HARNESS(h_q04x, "q04x", "C04", T_C04X, 0);

// C05: every synchronous edge, contended so that the slow paths (waiter hand-off, redirect) are taken
static const char *const T_C05[] = {
	"S0 | a0 s0 | a0",
	"S0 | a0 B0 | a0",
	"S0 | a0 w0 | a0",
	"S0 | s0 | s0",
	"S0 | s0 | B0",
	"S0 | w0 | s0",
	"C0 | a0 s0 | b0",
	"C0 | b0 | s0",
	"C0 | b0 | w0",
	"C0 | B0 | s0",
	"S0 S1>0 | a0 s1 | a1",
	"S0 C1>0 | b1 | s1",
	"S0 S1>0 S2>1 | a1 | s2",
	"G0 | s0 | a0",
	"G0 C1>0 | b1 s1 | a1",
	"W0 S1>0 | a1 | s1",
	"S0 | A0 | a0",
	"C0 | 30 | b0",
	// repeated synchronous submissions from one frame (the waiter's thread event lives at the same stack address each time):
	// a late wake-up meant for submission k must not release the waiter of submission k+1
	"S0 | a0 a0 | s0 s0",
	"S0 | a0 a0 | s0 B0",
	"S0 | a0 a0 | w0 s0",
	"S0 | a0 a0 a0 | s0 s0 s0",
	"slow; S0 | a0 a0 a0 | s0 s0 s0",
	"slow; S0 | a0 a0 | s0 s0",
	"slow; S0 | a0 a0 | w0 B0",
	0
};
QP_HARNESS(h_q05, "q05", "C05", T_C05, 0);
