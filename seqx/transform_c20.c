/*
 * transform_c20.c -- seqx driver for property C20
 * "Data transforms round-trip and never read outside their input".
 *
 * Bounded exhaustive enumeration (no sampling) of
 *   (a) all byte strings up to a length bound over a byte-class alphabet,
 *   (b) all base-encoder inputs over a small bit-pattern alphabet up to a longer bound,
 *   (c) all well-formed texts of <= N code points from a boundary code point set,
 *       encoded by the driver's own UTF-8 / UTF-16LE / UTF-16BE encoders,
 * each with ALL fragmentations into dispatch_data regions (every region is a
 * separately malloc'ed leaf of exactly the region's size, so AddressSanitizer
 * sees any access past a region), for every format pair that
 * dispatch_data_create_with_transform accepts.
 *
 * Oracles (exactly what C20 states):
 *   1. NONE->BASE32/BASE32HEX/BASE64 then decode returns the original bytes, the
 *      encoder output does not depend on the fragmentation, and decoding does
 *      not depend on how the *encoded* text is fragmented.  (The comparison with
 *      the driver's RFC 4648 encoder is reported as a note, not a violation.)
 *   2. well-formed text: UTF8->UTF16(LE|BE)->UTF8 and UTF16->UTF8->UTF16 return
 *      the original apart from leading byte-order marks, for every fragmentation.
 *   3. any input, any supported pair: result is NULL or the inverse transform
 *      applied to the result returns non-NULL; returned objects are well formed
 *      (region sizes add up, every region is addressable memory).
 *   4. AddressSanitizer report / crash / hang inside a transform = violation,
 *      attributed to the exact (bytes, fragmentation, pair).
 *
 * Process model: master -> 16 supervisors (static partition: unit u belongs to
 * supervisor u % 16) -> one worker child each.  A worker publishes the case it
 * is about to run in shared memory; if it dies the supervisor attributes the
 * death to that case, classifies it (top non-runtime frame resolved through the
 * ELF symbol table) and forks a new worker that resumes after the case.
 * All results live in shared memory, merging is order independent => the run
 * is deterministic.
 */
#define _GNU_SOURCE
#include <dispatch/dispatch.h>
#include <dispatch/private.h>
#include <elf.h>
#include <errno.h>
#include <fcntl.h>
#include <link.h>
#include <pthread.h>
#include <signal.h>
#include <stdarg.h>
#include <stdint.h>
#include <stdio.h>
#include <stdlib.h>
#include <string.h>
#include <sys/mman.h>
#include <sys/stat.h>
#include <sys/types.h>
#include <sys/wait.h>
#include <time.h>
#include <ucontext.h>
#include <unistd.h>

#if !defined(__LITTLE_ENDIAN__) && !(defined(__BYTE_ORDER__) && __BYTE_ORDER__ == __ORDER_LITTLE_ENDIAN__)
#error "driver's UTF_ANY reference detection assumes a little-endian host"
#endif

const char *__asan_default_options(void)
{
	return "detect_leaks=0:exitcode=66:symbolize=0:fast_unwind_on_fatal=1:"
	       "malloc_context_size=1:quarantine_size_mb=1:allocator_may_return_null=1:"
	       "print_legend=0:color=never:print_summary=0:handle_segv=0:handle_sigbus=0:"
	       "handle_sigill=0:handle_abort=0:handle_sigfpe=0";
}
extern const char *__asan_get_report_description(void);
extern void *__asan_get_report_pc(void);
extern void *__asan_get_report_bp(void);
extern int __asan_get_report_access_type(void);
extern size_t __asan_get_report_access_size(void);
extern void *__asan_region_is_poisoned(void *beg, size_t size);

#define NSUP 16
#define MAXIN 40   /* longest input / encoded text handled */
#define MAXEXP 48
#define RB 128     /* result buffer; any valid result is far smaller */
#define NCLS 96
#define NNOTE 48
#define NOUTC 16384
#define MAXSPACE 8
#define HANG_S 10

enum { F_NONE, F_B32, F_B32H, F_B64, F_UTF8, F_LE, F_BE, F_ANY, NF };
static const char *const c20_fname[NF] = { "none", "base32", "base32hex", "base64",
	"utf8", "utf16le", "utf16be", "utf_any" };
static const char *const c20_ffam[NF] = { "none", "base32", "base32hex", "base64",
	"utf8", "utf16", "utf16", "utf_any" };

static dispatch_data_format_type_t c20_ftype(int f)
{
	switch (f) {
	case F_NONE: return DISPATCH_DATA_FORMAT_TYPE_NONE;
	case F_B32: return DISPATCH_DATA_FORMAT_TYPE_BASE32;
	case F_B32H: return DISPATCH_DATA_FORMAT_TYPE_BASE32HEX;
	case F_B64: return DISPATCH_DATA_FORMAT_TYPE_BASE64;
	case F_UTF8: return DISPATCH_DATA_FORMAT_TYPE_UTF8;
	case F_LE: return DISPATCH_DATA_FORMAT_TYPE_UTF16LE;
	case F_BE: return DISPATCH_DATA_FORMAT_TYPE_UTF16BE;
	default: return DISPATCH_DATA_FORMAT_TYPE_UTF_ANY;
	}
}

/* The pair table as read from src/transform.c (input_mask/output_mask of the
 * format descriptors + UTF_ANY detection): */
static int c20_supported(int in, int out)
{
	if (out == F_ANY) return 0;
	if (in <= F_B64) return out <= F_B64;
	return out >= F_UTF8 && out <= F_BE;
}

/* ------------------------------------------------------------------ */
/* reference model: RFC 4648 encoders, UTF encoders, UTF_ANY detection  */

static const char c20_t32[] = "ABCDEFGHIJKLMNOPQRSTUVWXYZ234567";
static const char c20_t32h[] = "0123456789ABCDEFGHIJKLMNOPQRSTUV";
static const char c20_t64[] = "ABCDEFGHIJKLMNOPQRSTUVWXYZabcdefghijklmnopqrstuvwxyz0123456789+/";

static int c20_ref_b32(const uint8_t *s, int n, const char *tab, uint8_t *o)
{
	int k = 0;
	for (int i = 0; i < n; i += 5) {
		int rem = n - i < 5 ? n - i : 5;
		uint64_t v = 0;
		for (int j = 0; j < 5; j++) v = (v << 8) | (j < rem ? s[i + j] : 0);
		int nch = (rem * 8 + 4) / 5;
		for (int j = 0; j < 8; j++) o[k++] = j < nch ? (uint8_t)tab[(v >> (35 - 5 * j)) & 31] : '=';
	}
	return k;
}
static int c20_ref_b64(const uint8_t *s, int n, uint8_t *o)
{
	int k = 0;
	for (int i = 0; i < n; i += 3) {
		int rem = n - i < 3 ? n - i : 3;
		uint32_t v = 0;
		for (int j = 0; j < 3; j++) v = (v << 8) | (j < rem ? s[i + j] : 0);
		int nch = (rem * 8 + 5) / 6;
		for (int j = 0; j < 4; j++) o[k++] = j < nch ? (uint8_t)c20_t64[(v >> (18 - 6 * j)) & 63] : '=';
	}
	return k;
}
static int c20_ref_encode(int fmt, const uint8_t *s, int n, uint8_t *o)
{
	if (fmt == F_B32) return c20_ref_b32(s, n, c20_t32, o);
	if (fmt == F_B32H) return c20_ref_b32(s, n, c20_t32h, o);
	return c20_ref_b64(s, n, o);
}
static int c20_ref_utf8(uint32_t c, uint8_t *o)
{
	if (c < 0x80) { o[0] = (uint8_t)c; return 1; }
	if (c < 0x800) { o[0] = 0xc0 | (c >> 6); o[1] = 0x80 | (c & 0x3f); return 2; }
	if (c < 0x10000) { o[0] = 0xe0 | (c >> 12); o[1] = 0x80 | ((c >> 6) & 0x3f); o[2] = 0x80 | (c & 0x3f); return 3; }
	o[0] = 0xf0 | (c >> 18); o[1] = 0x80 | ((c >> 12) & 0x3f); o[2] = 0x80 | ((c >> 6) & 0x3f); o[3] = 0x80 | (c & 0x3f);
	return 4;
}
static int c20_put16(uint16_t u, int be, uint8_t *o)
{
	if (be) { o[0] = u >> 8; o[1] = u & 0xff; } else { o[0] = u & 0xff; o[1] = u >> 8; }
	return 2;
}
static int c20_ref_utf16(uint32_t c, int be, uint8_t *o)
{
	if (c < 0x10000) return c20_put16((uint16_t)c, be, o);
	c -= 0x10000;
	c20_put16((uint16_t)(0xd800 + (c >> 10)), be, o);
	c20_put16((uint16_t)(0xdc00 + (c & 0x3ff)), be, o + 2);
	return 4;
}
/* what UTF_ANY resolves to (transform.c:_dispatch_transform_detect_utf, LE host) */
static int c20_ref_detect(const uint8_t *b, int n)
{
	if (n < 2) return -1;
	if (b[0] == 0xff && b[1] == 0xfe) return F_LE;
	if (b[0] == 0xfe && b[1] == 0xff) return F_BE;
	return F_UTF8;
}

enum { NORM_NONE, NORM_BOM8, NORM_BOM16LE, NORM_BOM16BE };
static int c20_bomlen(int norm, const uint8_t *b, int n)
{
	if (norm == NORM_BOM8) return n >= 3 && b[0] == 0xef && b[1] == 0xbb && b[2] == 0xbf ? 3 : 0;
	if (norm == NORM_BOM16LE) return n >= 2 && b[0] == 0xff && b[1] == 0xfe ? 2 : 0;
	if (norm == NORM_BOM16BE) return n >= 2 && b[0] == 0xfe && b[1] == 0xff ? 2 : 0;
	return 0;
}
/* lenient: equal after removing every leading byte-order mark */
static int c20_eq_norm(int norm, const uint8_t *a, int na, const uint8_t *b, int nb)
{
	int k;
	while ((k = c20_bomlen(norm, a, na)) > 0) { a += k; na -= k; }
	while ((k = c20_bomlen(norm, b, nb)) > 0) { b += k; nb -= k; }
	return na == nb && memcmp(a, b, (size_t)na) == 0;
}
/* strict: differ by at most ONE leading byte-order mark */
static int c20_eq_strict(int norm, const uint8_t *a, int na, const uint8_t *b, int nb)
{
	if (na == nb && memcmp(a, b, (size_t)na) == 0) return 1;
	int k = c20_bomlen(norm, a, na);
	if (k && na - k == nb && memcmp(a + k, b, (size_t)nb) == 0) return 1;
	k = c20_bomlen(norm, b, nb);
	if (k && nb - k == na && memcmp(b + k, a, (size_t)na) == 0) return 1;
	return 0;
}
static int c20_bomnorm(int fmt)
{
	return fmt == F_UTF8 ? NORM_BOM8 : fmt == F_LE ? NORM_BOM16LE : fmt == F_BE ? NORM_BOM16BE : NORM_NONE;
}
static uint64_t c20_fnv(uint64_t h, const void *p, size_t n)
{
	const uint8_t *b = p;
	for (size_t i = 0; i < n; i++) { h ^= b[i]; h *= 1099511628211ull; }
	return h;
}
#define FNV0 1469598103934665603ull

/* ------------------------------------------------------------------ */
/* cases, results, shared state                                        */

typedef struct {
	int spkind;              /* 0 bytes/all pairs, 1 bytes/encoders, 2 text */
	int len; uint32_t mask;  /* input bytes; bit i of mask = region boundary after byte i */
	uint8_t bytes[MAXIN];
	int in, out, inv_in, inv_out;
	int need_nonnull;        /* the forward transform must succeed */
	int has_efwd, efwd_len, efwd_norm, efwd_note; uint8_t efwd[MAXEXP];
	int has_ert, ert_len, ert_norm; uint8_t ert[MAXEXP];
	int base0;               /* 1 = the same check passed on the unfragmented input */
	int origin;              /* 1 = input is an encoder output re-fragmented by the driver */
	int fragcmp;             /* 1 = forward bytes must equal unfragmented forward bytes */
	uint64_t h0; int h0_known;
} kase;

enum { V_OK, V_NULL, V_BADOBJ_F, V_FWD, V_ENCFRAG, V_INVREJ, V_BADOBJ_I, V_RT };
enum { ST_IDLE, ST_BUILD, ST_FWD, ST_CHECKF, ST_INV, ST_CHECKI };

typedef struct {
	int v; int fwd_null, inv_null, inv_run; int rlen, ilen;
	uint8_t r[RB], i[RB];
	char why[96];            /* coarse reason (part of the class key) */
	char detail[200];
	int note_rfc, note_strict, note_efwd, note_frag;
	uint64_t hf; int ncalls, nevals;
} res;

typedef struct { int valid; int sig; char desc[64]; int atype; size_t asize; int npc; uintptr_t pcs[20]; } crashinfo;

typedef struct {
	char key[224];
	char what[224];
	char detail[200];
	uint64_t count;
	uint64_t pairs;          /* bit in*8+out */
	kase ex;
	int used;
} cls;

typedef struct { int valid, resume, space; uint64_t unit; uint32_t mask; int grp, outi, nouts; } cursor;

typedef struct {
	int id;
	uint64_t states, transitions, evals, deaths, skipped, units, masked;
	uint64_t deaths_sp[MAXSPACE], fu16_sp[MAXSPACE], tu16_sp[MAXSPACE], skipped_sp[MAXSPACE], units_sp[MAXSPACE], states_sp[MAXSPACE];
	int skip_from_len[MAXSPACE];
	int aborted[MAXSPACE];
	int timeout, driver_error;
	char errmsg[256];
	cursor cur;
	kase curk; int stage;
	crashinfo ci;
	struct { uint8_t v0[8][4]; uint64_t h0[8][4]; uint8_t h0k[8][4]; } ctx;
	cls classes[NCLS];
	cls notes[NNOTE];
	uint64_t outc[NOUTC];
} sup_t;

typedef struct {
	sup_t sup[NSUP];
	char samples[6][700]; int nsamples;
	char pairnote[512];
} shm_t;

static shm_t *g_shm;
static sup_t *g_S;          /* supervisor slot of this process (worker/supervisor) */
static int g_quickexit;     /* 1: __asan_on_error records and _exits */
static uintptr_t g_stack_hi;
static double g_t0, g_deadline;
static int g_thorough;

static double c20_now(void)
{
	struct timespec t; clock_gettime(CLOCK_MONOTONIC, &t);
	return (double)t.tv_sec + (double)t.tv_nsec * 1e-9;
}

/* ------------------------------------------------------------------ */
/* crash capture (runs in the dying worker) and symbol lookup           */

static void c20_walk(crashinfo *ci, uintptr_t pc, uintptr_t bp)
{
	int n = 0;
	uintptr_t lo = (uintptr_t)__builtin_frame_address(0);
	if (pc) ci->pcs[n++] = pc;
	while (n < 20 && bp > lo && bp + 16 <= g_stack_hi && (bp & 7) == 0) {
		uintptr_t ret = ((uintptr_t *)bp)[1], nb = ((uintptr_t *)bp)[0];
		if (ret) ci->pcs[n++] = ret;
		if (nb <= bp) break;
		bp = nb;
	}
	ci->npc = n;
}

void __asan_on_error(void)
{
	if (!g_quickexit || !g_S) return;
	crashinfo *ci = &g_S->ci;
	const char *d = __asan_get_report_description();
	snprintf(ci->desc, sizeof ci->desc, "%s", d ? d : "error");
	ci->atype = __asan_get_report_access_type();
	ci->asize = __asan_get_report_access_size();
	uintptr_t pc = (uintptr_t)__asan_get_report_pc(), bp = (uintptr_t)__asan_get_report_bp();
	if (!pc || !bp) { pc = 0; bp = (uintptr_t)__builtin_frame_address(0); }
	c20_walk(ci, pc, bp);
	ci->valid = 1;
	_exit(66);
}

static void c20_sigh(int sig, siginfo_t *si, void *ucv)
{
	(void)si;
	ucontext_t *uc = ucv;
	if (g_S && g_quickexit) {
		crashinfo *ci = &g_S->ci;
		ci->sig = sig;
		snprintf(ci->desc, sizeof ci->desc, "%s", sig == SIGSEGV ? "SIGSEGV" : sig == SIGILL ? "SIGILL (trap)" :
			sig == SIGABRT ? "SIGABRT" : sig == SIGBUS ? "SIGBUS" : sig == SIGFPE ? "SIGFPE" : "signal");
		c20_walk(ci, (uintptr_t)uc->uc_mcontext.gregs[REG_RIP], (uintptr_t)uc->uc_mcontext.gregs[REG_RBP]);
		ci->valid = 2;
	}
	_exit(67);
}

static void c20_worker_init(int quiet)
{
	pthread_attr_t a; void *sa = NULL; size_t ss = 0;
	if (pthread_getattr_np(pthread_self(), &a) == 0) {
		pthread_attr_getstack(&a, &sa, &ss);
		pthread_attr_destroy(&a);
	}
	g_stack_hi = (uintptr_t)sa + ss;
	struct sigaction s; memset(&s, 0, sizeof s);
	s.sa_sigaction = c20_sigh; s.sa_flags = SA_SIGINFO;
	int sigs[] = { SIGSEGV, SIGBUS, SIGILL, SIGFPE, SIGABRT };
	for (unsigned i = 0; i < sizeof sigs / sizeof *sigs; i++) sigaction(sigs[i], &s, NULL);
	if (quiet) {
		int fd = open("/dev/null", O_WRONLY);
		if (fd >= 0) { dup2(fd, 2); close(fd); }
	}
}

typedef struct { uintptr_t a; size_t sz; const char *name; } fsym;
static fsym *g_syms; static int g_nsyms; static uintptr_t g_base;

static int c20_phdr_cb(struct dl_phdr_info *i, size_t sz, void *d)
{
	(void)sz; *(uintptr_t *)d = i->dlpi_addr; return 1; /* first entry = main executable */
}
static int c20_symcmp(const void *x, const void *y)
{
	const fsym *a = x, *b = y;
	if (a->a != b->a) return a->a < b->a ? -1 : 1;
	return strcmp(a->name, b->name);
}
static void c20_sym_init(void)
{
	if (g_syms) return;
	dl_iterate_phdr(c20_phdr_cb, &g_base);
	int fd = open("/proc/self/exe", O_RDONLY);
	struct stat stt;
	if (fd < 0 || fstat(fd, &stt) != 0) return;
	uint8_t *m = mmap(NULL, (size_t)stt.st_size, PROT_READ, MAP_PRIVATE, fd, 0);
	close(fd);
	if (m == MAP_FAILED) return;
	Elf64_Ehdr *eh = (Elf64_Ehdr *)m;
	Elf64_Shdr *sh = (Elf64_Shdr *)(m + eh->e_shoff);
	for (int i = 0; i < eh->e_shnum; i++) {
		if (sh[i].sh_type != SHT_SYMTAB) continue;
		Elf64_Sym *sy = (Elf64_Sym *)(m + sh[i].sh_offset);
		size_t n = sh[i].sh_size / sizeof(Elf64_Sym);
		const char *str = (const char *)(m + sh[sh[i].sh_link].sh_offset);
		g_syms = malloc(n * sizeof(fsym));
		for (size_t j = 0; j < n; j++) {
			if (ELF64_ST_TYPE(sy[j].st_info) != STT_FUNC || !sy[j].st_value) continue;
			g_syms[g_nsyms].a = sy[j].st_value;
			g_syms[g_nsyms].sz = sy[j].st_size;
			g_syms[g_nsyms].name = str + sy[j].st_name;
			g_nsyms++;
		}
		qsort(g_syms, (size_t)g_nsyms, sizeof(fsym), c20_symcmp);
		break;
	}
}
static const char *c20_sym(uintptr_t pc)
{
	c20_sym_init();
	if (!g_nsyms || pc < g_base) return NULL;
	uintptr_t off = pc - g_base;
	int lo = 0, hi = g_nsyms - 1, best = -1;
	while (lo <= hi) {
		int mid = (lo + hi) / 2;
		if (g_syms[mid].a <= off) { best = mid; lo = mid + 1; } else hi = mid - 1;
	}
	if (best < 0) return NULL;
	while (best > 0 && g_syms[best - 1].a == g_syms[best].a) best--;
	if (g_syms[best].sz && off >= g_syms[best].a + g_syms[best].sz) return NULL;
	return g_syms[best].name;
}
static int c20_runtime_name(const char *n)
{
	static const char *const pre[] = { "__asan", "__interceptor_", "__sanitizer", "__sancov", "_ZN6__asan",
		"_ZN11__sanitizer", "__lsan", "_ZN6__lsan", "__ubsan", "___interceptor", NULL };
	static const char *const exact[] = { "memcpy", "memmove", "memset", "memcmp", "strlen", "free", "malloc",
		"calloc", "realloc", "bcmp", "__asan_on_error", "c20_sigh", "c20_walk", NULL };
	for (int i = 0; pre[i]; i++) if (!strncmp(n, pre[i], strlen(pre[i]))) return 1;
	for (int i = 0; exact[i]; i++) if (!strcmp(n, exact[i])) return 1;
	return 0;
}
/* top frame that is neither sanitizer runtime nor libc: normalised function name */
static void c20_topframe(const crashinfo *ci, char *out, size_t cap, char *trace, size_t tcap)
{
	snprintf(out, cap, "?");
	if (trace && tcap) trace[0] = 0;
	int found = 0;
	for (int i = 0; i < ci->npc; i++) {
		uintptr_t pc = ci->pcs[i];
		const char *n = c20_sym(i == 0 ? pc : pc - 1);
		if (i > 0 && pc == ci->pcs[i - 1]) continue;
		if (trace && n && strlen(trace) + strlen(n) + 4 < tcap) { if (trace[0]) strcat(trace, " < "); strcat(trace, n); }
		if (!n || found || c20_runtime_name(n)) continue;
		char b[160]; snprintf(b, sizeof b, "%s", n);
		char *p = strstr(b, "_block_invoke");
		char *s = b;
		if (p) { *p = 0; if (!strncmp(s, "__", 2)) s += 2; }
		if ((p = strstr(s, ".cold"))) *p = 0;
		if ((p = strstr(s, ".part."))) *p = 0;
		snprintf(out, cap, "%s", s);
		found = 1;
	}
}

/* ------------------------------------------------------------------ */
/* building inputs, reading results                                    */

static int c20_regions(int len, uint32_t mask, int *sizes)
{
	int n = 0, start = 0;
	for (int i = 0; i < len; i++) {
		if (i == len - 1 || (mask >> i) & 1) { sizes[n++] = i + 1 - start; start = i + 1; }
	}
	return n;
}
static dispatch_data_t c20_build(const uint8_t *b, int len, uint32_t mask)
{
	dispatch_data_t d = dispatch_data_empty;
	int sizes[MAXIN], n = c20_regions(len, mask, sizes), off = 0;
	for (int i = 0; i < n; i++) {
		void *buf = malloc((size_t)sizes[i]);       /* exactly the region: ASan red zone right behind it */
		if (!buf) _exit(3);
		memcpy(buf, b + off, (size_t)sizes[i]);
		off += sizes[i];
		dispatch_data_t leaf = dispatch_data_create(buf, (size_t)sizes[i], NULL, DISPATCH_DATA_DESTRUCTOR_FREE);
		dispatch_data_t c = dispatch_data_create_concat(d, leaf);
		dispatch_release(leaf);
		dispatch_release(d);
		d = c;
	}
	return d;
}
/* copies the bytes of a returned object; -1 + why if the object is not well formed */
static int c20_read(dispatch_data_t d, uint8_t *buf, int *outlen, char *why, size_t wcap, char *detail, size_t dcap)
{
	size_t sz = dispatch_data_get_size(d);
	if (sz > RB) {
		snprintf(why, wcap, "size field is impossible for this input");
		snprintf(detail, dcap, "dispatch_data_get_size=%zu", sz);
		return -1;
	}
	__block int bad = 0;
	__block size_t tot = 0;
	dispatch_data_apply(d, ^bool(dispatch_data_t rgn, size_t off, const void *p, size_t n) {
		(void)rgn;
		if (n > RB || off > RB || off + n > RB) {
			bad = 1;
			snprintf(why, wcap, "region size is impossible for this input");
			snprintf(detail, dcap, "size=%zu region offset=%zu length=%zu", sz, off, n);
			return false;
		}
		if (__asan_region_is_poisoned((void *)p, n)) {
			bad = 1;
			snprintf(why, wcap, "region extends past its allocation");
			snprintf(detail, dcap, "size=%zu region offset=%zu length=%zu is not all addressable", sz, off, n);
			return false;
		}
		memcpy(buf + off, p, n);
		tot += n;
		return true;
	});
	if (bad) return -1;
	if (tot != sz) {
		snprintf(why, wcap, "region sizes do not add up to the size");
		snprintf(detail, dcap, "size=%zu sum of regions=%zu", sz, tot);
		return -1;
	}
	*outlen = (int)sz;
	return 0;
}

static void c20_hex(const uint8_t *b, int n, char *o, size_t cap)
{
	size_t k = 0; o[0] = 0;
	for (int i = 0; i < n && k + 4 < cap; i++) k += (size_t)snprintf(o + k, cap - k, "%s%02x", i ? " " : "", b[i]);
}
static void c20_fragstr(int len, uint32_t mask, char *o, size_t cap)
{
	int sizes[MAXIN], n = c20_regions(len, mask, sizes); size_t k = 0; o[0] = 0;
	for (int i = 0; i < n && k + 6 < cap; i++) k += (size_t)snprintf(o + k, cap - k, "%s%d", i ? "," : "", sizes[i]);
}

static void c20_stage(int st) { if (g_S) g_S->stage = st; }

/* Execute one case against the library and evaluate every oracle that applies.
 * `data` may be a prebuilt input (reused across pairs) or NULL. */
static void c20_run(const kase *k, dispatch_data_t data, res *r)
{
	memset(r, 0, sizeof *r);
	dispatch_data_t own = NULL;
	if (!data) { c20_stage(ST_BUILD); own = data = c20_build(k->bytes, k->len, k->mask); }
	c20_stage(ST_FWD);
	dispatch_data_t R = dispatch_data_create_with_transform(data, c20_ftype(k->in), c20_ftype(k->out));
	r->ncalls++;
	c20_stage(ST_CHECKF);
	r->nevals++;
	if (!R) {
		r->fwd_null = 1;
		r->hf = FNV0 ^ 0x9e3779b97f4a7c15ull;
		if (k->need_nonnull) { r->v = V_NULL; snprintf(r->detail, sizeof r->detail, "forward transform returned NULL"); }
		goto fragnote;
	}
	if (c20_read(R, r->r, &r->rlen, r->why, sizeof r->why, r->detail, sizeof r->detail) != 0) {
		r->v = V_BADOBJ_F;
		{ char t[200]; snprintf(t, sizeof t, "%s: %s", r->why, r->detail); snprintf(r->detail, sizeof r->detail, "%s", t); }
		dispatch_release(R);
		goto out;
	}
	r->hf = c20_fnv(FNV0, r->r, (size_t)r->rlen);
	if (k->has_efwd) {
		r->nevals++;
		if (!c20_eq_norm(k->efwd_norm, r->r, r->rlen, k->efwd, k->efwd_len)) {
			if (k->efwd_note) { if (k->spkind == 2) r->note_efwd = 1; else r->note_rfc = 1; }
			else { r->v = V_FWD; snprintf(r->detail, sizeof r->detail, "forward result differs from the expected bytes"); }
		}
	}
	if (!r->v && k->fragcmp && k->h0_known) {
		r->nevals++;
		if (r->hf != k->h0) { r->v = V_ENCFRAG; snprintf(r->detail, sizeof r->detail, "encoded text differs from the encoding of the unfragmented input"); }
	}
	c20_stage(ST_INV);
	dispatch_data_t I = dispatch_data_create_with_transform(R, c20_ftype(k->inv_in), c20_ftype(k->inv_out));
	r->ncalls++; r->inv_run = 1;
	c20_stage(ST_CHECKI);
	r->nevals++;
	if (!I) {
		r->inv_null = 1;
		if (!r->v) { r->v = V_INVREJ; snprintf(r->detail, sizeof r->detail, "inverse %s->%s returned NULL", c20_fname[k->inv_in], c20_fname[k->inv_out]); }
	} else {
		char why[96] = "", det[200] = "";
		if (c20_read(I, r->i, &r->ilen, why, sizeof why, det, sizeof det) != 0) {
			if (!r->v) { r->v = V_BADOBJ_I; snprintf(r->why, sizeof r->why, "%s", why); snprintf(r->detail, sizeof r->detail, "%s: %s", why, det); }
		} else if (k->has_ert) {
			r->nevals++;
			if (!c20_eq_norm(k->ert_norm, r->i, r->ilen, k->ert, k->ert_len)) {
				if (!r->v) { r->v = V_RT; snprintf(r->detail, sizeof r->detail, "round trip result differs from the original"); }
			} else if (k->ert_norm != NORM_NONE && !c20_eq_strict(k->ert_norm, r->i, r->ilen, k->ert, k->ert_len)) {
				r->note_strict = 1;
			}
		}
		dispatch_release(I);
	}
	dispatch_release(R);
fragnote:
	if (!k->fragcmp && k->h0_known && k->mask != 0 && r->hf != k->h0) r->note_frag = 1;
out:
	c20_stage(ST_IDLE);
	if (own) dispatch_release(own);
}

/* ------------------------------------------------------------------ */
/* recording: violation classes, notes, distinct outcomes              */

static int c20_popcount(uint32_t m) { return __builtin_popcount(m); }
/* total order on cases: shortest input, fewest regions, ... => "minimal input first" */
static int c20_kcmp(const kase *a, const kase *b)
{
	if (a->len != b->len) return a->len < b->len ? -1 : 1;
	int pa = c20_popcount(a->mask), pb = c20_popcount(b->mask);
	if (pa != pb) return pa < pb ? -1 : 1;
	if (a->mask != b->mask) return a->mask < b->mask ? -1 : 1;
	int c = memcmp(a->bytes, b->bytes, (size_t)a->len);
	if (c) return c;
	if (a->in != b->in) return a->in < b->in ? -1 : 1;
	if (a->out != b->out) return a->out < b->out ? -1 : 1;
	if (a->origin != b->origin) return a->origin < b->origin ? -1 : 1;
	return 0;
}
static void c20_record_into(cls *tab, int ntab, const char *key, const char *what, const char *detail, const kase *k, uint64_t count, uint64_t pairs)
{
	int slot = -1;
	for (int i = 0; i < ntab; i++) {
		if (tab[i].used && !strcmp(tab[i].key, key)) { slot = i; break; }
		if (!tab[i].used) { slot = i; break; }
	}
	if (slot < 0) return; /* table full: extremely many classes; the first ntab are kept */
	cls *c = &tab[slot];
	if (!c->used) {
		c->used = 1; c->count = 0; c->pairs = 0;
		snprintf(c->key, sizeof c->key, "%s", key);
		snprintf(c->what, sizeof c->what, "%s", what);
		snprintf(c->detail, sizeof c->detail, "%s", detail);
		c->ex = *k;
	} else if (c20_kcmp(k, &c->ex) < 0) {
		c->ex = *k;
		snprintf(c->what, sizeof c->what, "%s", what);
		snprintf(c->detail, sizeof c->detail, "%s", detail);
	}
	c->count += count;
	c->pairs |= pairs;
}
static int c20_eff_in(const kase *k)
{
	if (k->in != F_ANY) return k->in;
	int d = c20_ref_detect(k->bytes, k->len);
	return d < 0 ? F_ANY : d;
}
static void c20_record(sup_t *S, int note, const char *what, int with_pair, const char *detail, const kase *k)
{
	char key[224];
	if (with_pair == 2) snprintf(key, sizeof key, "%s|*->%s", what, c20_ffam[k->out]);
	else if (with_pair) snprintf(key, sizeof key, "%s|%s->%s", what, c20_ffam[c20_eff_in(k)], c20_ffam[k->out]);
	else snprintf(key, sizeof key, "%s", what);
	c20_record_into(note ? S->notes : S->classes, note ? NNOTE : NCLS, key, what, detail, k, 1,
			1ull << (k->in * 8 + k->out));
}
static void c20_outcome(sup_t *S, uint64_t h)
{
	if (!h) h = 1;
	uint64_t i = (h * 0x9e3779b97f4a7c15ull) >> 50; /* 14 bits */
	for (int n = 0; n < NOUTC; n++, i = (i + 1) & (NOUTC - 1)) {
		if (S->outc[i] == h) return;
		if (!S->outc[i]) { S->outc[i] = h; return; }
	}
}

static const char *c20_vtext(const kase *k, const res *r, char *buf, size_t cap)
{
	const char *pre = (k->mask != 0 && k->base0 == 1) ? "fragmentation-dependent: " : "";
	switch (r->v) {
	case V_NULL: snprintf(buf, cap, "%stransform returns NULL for input that must convert", pre); break;
	case V_BADOBJ_F: snprintf(buf, cap, "%sreturned object is invalid (size/regions do not describe its memory)", pre); break;
	case V_FWD: snprintf(buf, cap, "%sdecoding the encoded text does not return the original bytes", pre); break;
	case V_ENCFRAG: snprintf(buf, cap, "encoder output depends on the fragmentation of its input"); break;
	case V_INVREJ: snprintf(buf, cap, "%soutput is rejected by the inverse transform (NULL)", pre); break;
	case V_BADOBJ_I: snprintf(buf, cap, "%sinverse transform returned an invalid object (size/regions do not describe its memory)", pre); break;
	case V_RT: snprintf(buf, cap, "%sround trip returns different bytes", pre); break;
	default: snprintf(buf, cap, "ok");
	}
	return buf;
}

/* account one executed case */
static void c20_account(sup_t *S, const kase *k, const res *r)
{
	S->transitions += (uint64_t)r->ncalls;
	S->evals += (uint64_t)r->nevals;
	uint64_t h = FNV0;
	int key[8] = { k->spkind * 2 + k->origin, k->in, k->out, r->fwd_null, r->rlen, r->inv_run ? 1 + r->inv_null : 0, r->ilen, r->v };
	h = c20_fnv(h, key, sizeof key);
	c20_outcome(S, h);
	char buf[224];
	if (r->v) c20_record(S, 0, c20_vtext(k, r, buf, sizeof buf), r->v == V_INVREJ ? 2 : 1, r->detail, k);
	if (r->note_rfc) c20_record(S, 1, "encoder output differs from the RFC 4648 reference encoder", 1, "", k);
	if (r->note_strict) c20_record(S, 1, "round trip differs from the original by more than ONE leading byte-order mark (strict reading; the lenient reading strips all leading U+FEFF)", 1, "", k);
	if (r->note_efwd) c20_record(S, 1, "UTF conversion output differs from the driver's reference encoding (beyond leading byte-order marks)", 1, "", k);
	if (r->note_frag) c20_record(S, 1, "forward result depends on the fragmentation of the input (informational: C20 only constrains round trips and invertibility here)", 1, "", k);
}

/* ------------------------------------------------------------------ */
/* enumeration spaces                                                   */

static const uint8_t A15[] = { 0x00, 'A', '=', ' ', '\n', 0x7f, 0x80, 0xbf, 0xc2, 0xe0, 0xed, 0xef, 0xf0, 0xf4, 0xff };
static const uint8_t R6[] = { 'A', '=', ' ', 0xbf, 0xed, 0xf0 };
static const uint8_t R4[] = { 'A', '=', 0xbf, 0xf0 };
static const uint8_t A3[] = { 0x00, 0xa5, 0xff };
static const uint32_t CPS[] = { 0x0000, 0x0041, 0x007f, 0x0080, 0x07ff, 0x0800, 0xd7ff, 0xe000, 0xfeff, 0xfffd, 0xffff, 0x10000, 0x1f600, 0x10ffff };
/* U+1F600 (D83D DE00) added to the designed set: U+10000 / U+10FFFF have symmetric surrogate payloads */
#define NCPS 14
static const uint32_t CPS6[] = { 0x0041, 0x0080, 0x0800, 0xfeff, 0x10000, 0x1f600 };

typedef struct {
	const char *name; int kind; const uint8_t *alpha; const uint32_t *cps; int nalpha; int lmin, lmax;
	uint64_t nunits; uint64_t cum[24];
} space_t;
static space_t g_sp[MAXSPACE]; static int g_nsp;
static uint64_t g_cap_fu16, g_cap_total;
static int g_refrag_len0;

static uint64_t c20_ipow(uint64_t b, int e) { uint64_t r = 1; while (e-- > 0) r *= b; return r; }
static void c20_add_space(const char *name, int kind, const uint8_t *alpha, const uint32_t *cps, int nalpha, int lmin, int lmax)
{
	space_t *s = &g_sp[g_nsp++];
	s->name = name; s->kind = kind; s->alpha = alpha; s->cps = cps; s->nalpha = nalpha; s->lmin = lmin; s->lmax = lmax;
	uint64_t c = 0;
	for (int l = lmin; l <= lmax; l++) {
		s->cum[l - lmin] = c;
		c += kind == 2 ? c20_ipow((uint64_t)nalpha, l) * 3 : c20_ipow((uint64_t)nalpha, l);
	}
	s->cum[lmax - lmin + 1] = c;
	s->nunits = c;
}
typedef struct { int len; uint8_t bytes[MAXIN]; int enc; int ncp; uint32_t cp[4]; int elen[3]; uint8_t e[3][MAXIN]; } unit_t;
static void c20_unit_decode(const space_t *s, uint64_t u, unit_t *U)
{
	memset(U, 0, sizeof *U);
	int l = s->lmin;
	while (u >= s->cum[l - s->lmin + 1]) l++;
	uint64_t r = u - s->cum[l - s->lmin];
	if (s->kind != 2) {
		U->len = l;
		for (int i = l - 1; i >= 0; i--) { U->bytes[i] = s->alpha[r % (uint64_t)s->nalpha]; r /= (uint64_t)s->nalpha; }
		return;
	}
	U->enc = (int)(r % 3); r /= 3; U->ncp = l;
	for (int i = l - 1; i >= 0; i--) { U->cp[i] = s->cps[r % (uint64_t)s->nalpha]; r /= (uint64_t)s->nalpha; }
	for (int i = 0; i < l; i++) {
		U->elen[0] += c20_ref_utf8(U->cp[i], U->e[0] + U->elen[0]);
		U->elen[1] += c20_ref_utf16(U->cp[i], 0, U->e[1] + U->elen[1]);
		U->elen[2] += c20_ref_utf16(U->cp[i], 1, U->e[2] + U->elen[2]);
	}
	U->len = U->elen[U->enc];
	memcpy(U->bytes, U->e[U->enc], (size_t)U->len);
}
static const int c20_encfmt[3] = { F_UTF8, F_LE, F_BE };
static int c20_fmtenc(int f) { return f == F_UTF8 ? 0 : f == F_LE ? 1 : 2; }

static int c20_ngroups(int kind) { return kind == 0 ? 8 : kind == 1 ? 1 : 2; }
static int c20_group_in(int kind, const unit_t *U, int g)
{
	if (kind == 0) return g;
	if (kind == 1) return F_NONE;
	return g == 0 ? c20_encfmt[U->enc] : F_ANY;
}
static int c20_group_outs(int kind, int in, int *outs)
{
	if (kind == 1) { outs[0] = F_B32; outs[1] = F_B32H; outs[2] = F_B64; return 3; }
	if (in <= F_B64) { outs[0] = F_NONE; outs[1] = F_B32; outs[2] = F_B32H; outs[3] = F_B64; return 4; }
	outs[0] = F_UTF8; outs[1] = F_LE; outs[2] = F_BE; return 3;
}

/* which oracles apply to (space kind, pair) */
static void c20_setup(kase *k, int kind, const unit_t *U, uint32_t mask, int in, int out)
{
	memset(k, 0, sizeof *k);
	k->spkind = kind; k->len = U->len; k->mask = mask; k->in = in; k->out = out;
	memcpy(k->bytes, U->bytes, (size_t)U->len);
	int eff = in == F_ANY ? c20_ref_detect(U->bytes, U->len) : in;
	k->inv_in = out; k->inv_out = eff < 0 ? F_UTF8 : eff;
	if (kind != 2) {
		if (in == F_NONE && out != F_NONE) {     /* oracle 1: encoders */
			k->need_nonnull = 1;
			k->has_efwd = 1; k->efwd_note = 1; k->efwd_norm = NORM_NONE;
			k->efwd_len = c20_ref_encode(out, U->bytes, U->len, k->efwd);
			k->has_ert = 1; k->ert_norm = NORM_NONE; k->ert_len = U->len;
			memcpy(k->ert, U->bytes, (size_t)U->len);
			k->fragcmp = 1;
		}
		return;
	}
	/* well-formed text */
	int truefmt = c20_encfmt[U->enc];
	if (in == truefmt && out != in && (in == F_UTF8 || out == F_UTF8)) {   /* oracle 2 */
		k->need_nonnull = 1;
		k->has_ert = 1; k->ert_norm = c20_bomnorm(in); k->ert_len = U->len;
		memcpy(k->ert, U->bytes, (size_t)U->len);
	}
	if (eff == truefmt) {
		int oe = c20_fmtenc(out);
		k->has_efwd = 1; k->efwd_note = 1; k->efwd_norm = c20_bomnorm(out);
		k->efwd_len = U->elen[oe];
		memcpy(k->efwd, U->e[oe], (size_t)U->elen[oe]);
	}
}

/* Crash prediction, used ONLY to skip cases after a crash class has been
 * observed more than the cap in this run (it can only reduce coverage, which
 * is then reported: exhaustive=false + skipped count).  Both functions follow
 * the control flow of the pinned _dispatch_transform_from_utf16 /
 * _dispatch_transform_to_utf16 and answer "does this input reach one of the
 * reads that AddressSanitizer has been reporting". */
static unsigned c20_u16at(const uint8_t *b, int pos, int be) { return be ? (unsigned)(b[pos] << 8 | b[pos + 1]) : (unsigned)(b[pos + 1] << 8 | b[pos]); }
static int c20_predicted_fu16(int eff_in, const uint8_t *b, int len, uint32_t mask)
{
	if (eff_in != F_LE && eff_in != F_BE) return 0;
	int be = eff_in == F_BE;
	int sizes[MAXIN], n = c20_regions(len, mask, sizes), off = 0, skip = 0;
	for (int r = 0; r < n; off += sizes[r], r++) {
		int size = sizes[r], sp = 0;
		if (skip >= size) { skip -= size; continue; }
		if (skip > 0) { sp = skip; size -= skip; skip = 0; }
		int full = size / 2, max = full + (size & 1);
		for (int i = 0; i < max; i++) {
			if (i == max - 1 && max > full) return off + i * 2 + 2 <= len;   /* odd tail: 8-byte read of a 2-byte map */
			unsigned ch = c20_u16at(b, off + sp + 2 * i, be);
			if (ch == 0xfffe && off == 0 && i == 0) return 0;
			if (ch == 0xfeff && off == 0 && i == 0) continue;
			if (ch >= 0xd800 && ch <= 0xdbff) {
				unsigned c2;
				if (++i >= max) {
					if (off + i * 2 + 2 > len) return 0;
					c2 = c20_u16at(b, off + i * 2, be);
					skip += 2;
				} else {
					if (i == max - 1 && max > full) return 1;                   /* src[i] straddles the region end */
					c2 = c20_u16at(b, off + sp + 2 * i, be);
				}
				if (c2 < 0xdc00 || c2 > 0xdfff) return 0;
			} else if (ch >= 0xdc00 && ch <= 0xdfff) return 0;
		}
	}
	return 0;
}
static int c20_u8len(uint8_t b) { return (b & 0x80) == 0 ? 1 : (b & 0xe0) == 0xc0 ? 2 : (b & 0xf0) == 0xe0 ? 3 : (b & 0xf8) == 0xf0 ? 4 : 0; }
static unsigned c20_u8seq(const uint8_t *p, int l)
{
	unsigned w = l == 1 ? p[0] & 0x7f : l == 2 ? p[0] & 0x1f : l == 3 ? p[0] & 0xf : p[0] & 0x7;
	for (int i = 1; i < l; i++) w = (w << 6) | (p[i] & 0x3f);
	return w;
}
static int c20_predicted_tu16(int eff_in, const uint8_t *b, int len, uint32_t mask)
{
	if (eff_in != F_UTF8) return 0;
	int sizes[MAXIN], n = c20_regions(len, mask, sizes), off = 0, skip = 0;
	for (int r = 0; r < n; off += sizes[r], r++) {
		int size = sizes[r], sp = 0;
		if (skip >= size) { skip -= size; continue; }
		if (skip > 0) { sp = skip; size -= skip; skip = 0; }
		for (int i = 0; i < size;) {
			int l = c20_u8len(b[off + sp + i]);
			unsigned w;
			if (!l) return 0;
			if (l + i > size) {
				int at = off + i;                      /* the library maps at offset + i (not + the skipped bytes) */
				if (at + l > len) return 0;
				int l2 = c20_u8len(b[at]);
				if (l2 == 0 || l2 > l) return 1;       /* sequence reader runs past the l mapped bytes */
				w = c20_u8seq(b + at, l2);
				skip += l - (size - i);
				i = size;
			} else { w = c20_u8seq(b + off + sp + i, l); i += l; }
			if (w >= 0xd800 && w < 0xdfff) return 0;
		}
	}
	return 0;
}

/* decoding must not depend on how the ENCODED text is fragmented: all
 * fragmentations for <= 8 chars, all with <= 3 regions beyond */
static void c20_refrag(sup_t *S, const kase *enc, const uint8_t *E, int elen)
{
	if (elen <= 0 || elen > MAXIN) return;
	uint32_t nm = 1u << (elen - 1);
	int base0 = -1;
	for (uint32_t m = 0; m < nm; m++) {
		if (elen > 8 && c20_popcount(m) > 2) continue;
		kase *k = &S->curk;
		memset(k, 0, sizeof *k);
		k->spkind = enc->spkind; k->origin = 1;
		k->len = elen; k->mask = m; memcpy(k->bytes, E, (size_t)elen);
		k->in = enc->out; k->out = F_NONE; k->inv_in = F_NONE; k->inv_out = enc->out;
		k->need_nonnull = 1;
		k->has_efwd = 1; k->efwd_norm = NORM_NONE; k->efwd_len = enc->len;
		memcpy(k->efwd, enc->bytes, (size_t)enc->len);
		k->base0 = base0 == 1;
		res r;
		S->states++;
		c20_run(k, NULL, &r);
		if (m == 0) {
			base0 = r.v == V_OK;
			if (!base0) {   /* identical to the inverse step of the encoder case, which has recorded it */
				S->transitions += (uint64_t)r.ncalls; S->evals += (uint64_t)r.nevals;
				return;
			}
		}
		c20_account(S, k, &r);
	}
}

static void c20_unit(sup_t *S, int sp, uint64_t u, const cursor *rc)
{
	const space_t *s = &g_sp[sp];
	unit_t U;
	c20_unit_decode(s, u, &U);
	if (!rc) { memset(S->ctx.v0, 0xff, sizeof S->ctx.v0); memset(S->ctx.h0k, 0, sizeof S->ctx.h0k); S->units++; S->units_sp[sp]++; }
	uint32_t nmask = U.len > 1 ? 1u << (U.len - 1) : 1;
	int ng = c20_ngroups(s->kind);
	for (uint32_t mask = rc ? rc->mask : 0; mask < nmask; mask++) {
		int first = rc && mask == rc->mask;
		int g0 = first ? rc->grp : 0;
		alarm(HANG_S);
		if (!first) { S->states++; S->states_sp[sp]++; }
		dispatch_data_t data = NULL;
		for (int g = g0; g < ng; g++) {
			int in = c20_group_in(s->kind, &U, g), outs[4];
			int no = c20_group_outs(s->kind, in, outs);
			int eff = in == F_ANY ? c20_ref_detect(U.bytes, U.len) : in;
			int o0 = (first && g == g0) ? rc->outi : 0;
			if (o0 < no && ((S->fu16_sp[sp] >= g_cap_fu16 && c20_predicted_fu16(eff, U.bytes, U.len, mask)) ||
					(S->tu16_sp[sp] >= g_cap_fu16 && c20_predicted_tu16(eff, U.bytes, U.len, mask)))) {
				S->skipped += (uint64_t)(no - o0); S->skipped_sp[sp] += (uint64_t)(no - o0);
				if (!S->skip_from_len[sp] || U.len < S->skip_from_len[sp]) S->skip_from_len[sp] = U.len ? U.len : 1;
				continue;
			}
			for (int oi = o0; oi < no; oi++) {
				kase *k = &S->curk;
				S->cur.valid = 1; S->cur.space = sp; S->cur.unit = u; S->cur.mask = mask; S->cur.grp = g; S->cur.outi = oi; S->cur.nouts = no;
				c20_setup(k, s->kind, &U, mask, in, outs[oi]);
				k->base0 = mask != 0 && S->ctx.v0[g][oi] == V_OK;
				if (mask != 0 && S->ctx.h0k[g][oi]) { k->h0 = S->ctx.h0[g][oi]; k->h0_known = 1; }
				if (!data) { c20_stage(ST_BUILD); data = c20_build(U.bytes, U.len, mask); }
				res r;
				c20_run(k, data, &r);
				if (mask == 0) { S->ctx.v0[g][oi] = (uint8_t)r.v; S->ctx.h0[g][oi] = r.hf; S->ctx.h0k[g][oi] = 1; }
				c20_account(S, k, &r);
				if (r.v == V_BADOBJ_F && outs[oi] == F_NONE && U.len > 2) {
					/* the decode stage (identity output) produced a corrupt object: the other
					 * outputs would only feed the same corrupt object to an encoder */
					S->masked += (uint64_t)(no - oi - 1);
					break;
				}
				if (mask == 0 && s->kind != 2 && in == F_NONE && outs[oi] != F_NONE && !r.fwd_null && r.v != V_BADOBJ_F &&
				    (s->kind == 1 || U.len <= g_refrag_len0)) {
					kase enc = *k;
					uint8_t E[RB]; int el = r.rlen;
					memcpy(E, r.r, (size_t)el);
					c20_refrag(S, &enc, E, el);
				}
			}
		}
		if (data) dispatch_release(data);
		if (S->deaths_sp[sp] >= g_cap_total) { S->aborted[sp] = 1; break; }
	}
	alarm(0);
}

static void c20_worker(sup_t *S)
{
	g_S = S; g_quickexit = 1;
	c20_worker_init(1);
	cursor c = S->cur;
	for (int sp = c.space; sp < g_nsp; sp++) {
		uint64_t u0 = sp == c.space ? c.unit : (uint64_t)S->id;
		for (uint64_t u = u0; u < g_sp[sp].nunits && !S->aborted[sp]; u += NSUP) {
			if (c20_now() > g_deadline) { S->timeout = 1; S->cur.valid = 0; _exit(0); }
			int resumed = sp == c.space && u == c.unit && c.resume;
			c20_unit(S, sp, u, resumed ? &c : NULL);
		}
	}
	S->cur.valid = 0;
	_exit(0);
}

/* ------------------------------------------------------------------ */
/* supervisor: attributes worker deaths to the published case          */

static void c20_describe_death(sup_t *S, int st, char *what, size_t cap, char *fn, size_t fcap, char *trace, size_t tcap, int *driver_err)
{
	*driver_err = 0;
	snprintf(fn, fcap, "?");
	trace[0] = 0;
	if (S->ci.valid) c20_topframe(&S->ci, fn, fcap, trace, tcap);
	if (WIFEXITED(st) && WEXITSTATUS(st) == 66 && S->ci.valid == 1) {
		if (S->ci.asize) snprintf(what, cap, "ASan %s %s %zu in %s", S->ci.desc, S->ci.atype ? "WRITE" : "READ", S->ci.asize, fn);
		else snprintf(what, cap, "ASan %s in %s", S->ci.desc, fn);
	} else if (WIFEXITED(st) && WEXITSTATUS(st) == 67 && S->ci.valid == 2) {
		snprintf(what, cap, "crash %s in %s", S->ci.desc, fn);
	} else if (WIFEXITED(st) && WEXITSTATUS(st) == 66) {
		snprintf(what, cap, "ASan error (no details captured)");
	} else if (WIFSIGNALED(st) && WTERMSIG(st) == SIGALRM) {
		snprintf(what, cap, "hang: transform did not return within %d s", HANG_S);
	} else if (WIFSIGNALED(st)) {
		snprintf(what, cap, "killed by signal %d", WTERMSIG(st));
	} else {
		snprintf(what, cap, "worker exited with unexpected status 0x%x", st);
		*driver_err = 1;
	}
	size_t l = strlen(what);
	switch (S->stage) {
	case ST_FWD: break;
	case ST_INV: snprintf(what + l, cap - l, " while the inverse transform processes the transform's output"); break;
	case ST_CHECKF: case ST_CHECKI: snprintf(what + l, cap - l, " while the driver reads and releases the returned objects"); break;
	default: snprintf(what + l, cap - l, " [outside any library call: driver stage %d]", S->stage); *driver_err = 1;
	}
}

static void c20_supervise(sup_t *S)
{
	g_S = S;
	for (;;) {
		memset(&S->ci, 0, sizeof S->ci);
		S->stage = ST_IDLE;
		pid_t p = fork();
		if (p < 0) { S->driver_error = 1; snprintf(S->errmsg, sizeof S->errmsg, "fork failed: %s", strerror(errno)); break; }
		if (p == 0) c20_worker(S);
		int st = 0;
		while (waitpid(p, &st, 0) < 0 && errno == EINTR) {}
		if (WIFEXITED(st) && WEXITSTATUS(st) == 0) break;
		char what[224], fn[160], trace[180]; int derr;
		c20_describe_death(S, st, what, sizeof what, fn, sizeof fn, trace, sizeof trace, &derr);
		if (derr || !S->cur.valid) {
			S->driver_error = 1;
			snprintf(S->errmsg, sizeof S->errmsg, "%s (%s)", what, trace);
			break;
		}
		kase k = S->curk;
		int sp = S->cur.space;
		char det[200]; snprintf(det, sizeof det, "frames: %s", trace);
		c20_record(S, 0, what, 0, det, &k);
		uint64_t h = c20_fnv(FNV0, what, strlen(what));
		int key[3] = { k.in, k.out, k.spkind };
		c20_outcome(S, c20_fnv(h, key, sizeof key));
		S->deaths++; S->deaths_sp[sp]++; S->transitions++; S->evals++;
		if (strstr(fn, "transform_from_utf16")) S->fu16_sp[sp]++;
		if (strstr(fn, "transform_to_utf16")) S->tu16_sp[sp]++;
		if (S->stage == ST_FWD && !strncmp(fn, "_dispatch_transform_from_", 25) && S->cur.nouts > S->cur.outi + 1) {
			/* died in the decoder of the input format: dispatch_data_create_with_transform makes the
			 * identical decode call for every output format (transform.c), so the rest of the group is masked */
			S->masked += (uint64_t)(S->cur.nouts - S->cur.outi - 1);
			S->cur.outi = S->cur.nouts;
		} else S->cur.outi++;
		S->cur.resume = 1;
	}
	_exit(0);
}

/* ------------------------------------------------------------------ */
/* JSON helpers, samples, replay                                       */

static void c20_hexs(const uint8_t *b, int n, char *o) { for (int i = 0; i < n; i++) sprintf(o + 2 * i, "%02x", b[i]); o[2 * n] = 0; }
static int c20_unhex(const char *s, uint8_t *o, int cap)
{
	int n = 0;
	while (s[0] && s[1] && s[0] != '"' && n < cap) { unsigned v; if (sscanf(s, "%2x", &v) != 1) break; o[n++] = (uint8_t)v; s += 2; }
	return n;
}
static void c20_kase_json(FILE *f, const kase *k)
{
	char hb[2 * MAXIN + 1], he[2 * MAXEXP + 1], hr[2 * MAXEXP + 1], fr[160];
	c20_hexs(k->bytes, k->len, hb); c20_hexs(k->efwd, k->efwd_len, he); c20_hexs(k->ert, k->ert_len, hr);
	c20_fragstr(k->len, k->mask, fr, sizeof fr);
	fprintf(f, "{\"pair\": \"%s->%s\", \"bytes\": \"%s\", \"frag\": [%s], \"spkind\": %d, \"len\": %d, \"mask\": %u, "
		"\"in\": %d, \"out\": %d, \"inv_in\": %d, \"inv_out\": %d, \"need_nonnull\": %d, "
		"\"has_efwd\": %d, \"efwd\": \"%s\", \"efwd_norm\": %d, \"efwd_note\": %d, "
		"\"has_ert\": %d, \"ert\": \"%s\", \"ert_norm\": %d, \"base0\": %d, \"origin\": %d}",
		c20_fname[k->in], c20_fname[k->out], hb, fr, k->spkind, k->len, k->mask, k->in, k->out, k->inv_in, k->inv_out,
		k->need_nonnull, k->has_efwd, he, k->efwd_norm, k->efwd_note, k->has_ert, hr, k->ert_norm, k->base0, k->origin);
}
static long c20_jint(const char *s, const char *key, long def)
{
	char pat[64]; snprintf(pat, sizeof pat, "\"%s\": ", key);
	const char *p = strstr(s, pat);
	return p ? strtol(p + strlen(pat), NULL, 10) : def;
}
static int c20_jhex(const char *s, const char *key, uint8_t *o, int cap)
{
	char pat[64]; snprintf(pat, sizeof pat, "\"%s\": \"", key);
	const char *p = strstr(s, pat);
	return p ? c20_unhex(p + strlen(pat), o, cap) : 0;
}
static void c20_sig_text(const cls *c, char *o, size_t cap)
{
	char hb[3 * MAXIN + 1], fr[160];
	c20_hex(c->ex.bytes, c->ex.len, hb, sizeof hb);
	c20_fragstr(c->ex.len, c->ex.mask, fr, sizeof fr);
	snprintf(o, cap, "%s->%s bytes=[%s] frag=[%s]%s: %s", c20_fname[c->ex.in], c20_fname[c->ex.out], hb, fr,
		c->ex.origin ? " (encoder output re-fragmented)" : "", c->what);
}

static void c20_sample(shm_t *sh, int spkind, const uint8_t *b, int len, uint32_t mask, int in, int out)
{
	unit_t U; memset(&U, 0, sizeof U);
	U.len = len; memcpy(U.bytes, b, (size_t)len);
	kase k; c20_setup(&k, spkind == 2 ? 0 : spkind, &U, mask, in, out);
	res r; c20_run(&k, NULL, &r);
	char hb[3 * MAXIN + 1], fr[160], hf[3 * RB + 1], hi[3 * RB + 1], vb[224];
	c20_hex(b, len, hb, sizeof hb); c20_fragstr(len, mask, fr, sizeof fr);
	c20_hex(r.r, r.rlen, hf, sizeof hf); c20_hex(r.i, r.ilen, hi, sizeof hi);
	snprintf(sh->samples[sh->nsamples], sizeof sh->samples[0],
		"{\"pair\": \"%s->%s\", \"bytes\": \"%s\", \"frag\": [%s], \"forward\": %s%s%s, \"inverse_pair\": \"%s->%s\", \"inverse\": %s%s%s, \"verdict\": \"%s\"}",
		c20_fname[in], c20_fname[out], hb, fr, r.fwd_null ? "null" : "\"", r.fwd_null ? "" : hf, r.fwd_null ? "" : "\"",
		c20_fname[k.inv_in], c20_fname[k.inv_out], (!r.inv_run || r.inv_null) ? "null" : "\"", (!r.inv_run || r.inv_null) ? "" : hi,
		(!r.inv_run || r.inv_null) ? "" : "\"", c20_vtext(&k, &r, vb, sizeof vb));
	sh->nsamples++;
}
static void c20_samples_child(shm_t *sh)
{
	c20_worker_init(1);
	static const uint8_t s1[] = { 0x00, 0x41, 0xff }, s2[] = { 0xf0, 0x80, 0x80, 0x80, 'A' }, s3[] = { 'A', 'A', '=', '=' },
		s4[] = { 0x41, 0x00, 0x00, 0xd8, 0x00, 0xdc }, s5[] = { 0xff, 0xa5, 0x00, 0xa5, 0xff, 0x00, 0x00 };
	c20_sample(sh, 0, s1, 3, 0x1, F_NONE, F_B32);
	c20_sample(sh, 0, s5, 7, 0x15, F_NONE, F_B64);
	c20_sample(sh, 0, s2, 5, 0x2, F_UTF8, F_LE);
	c20_sample(sh, 0, s3, 4, 0x0, F_B64, F_NONE);
	c20_sample(sh, 0, s4, 6, 0x2, F_LE, F_UTF8);
	_exit(0);
}
/* the library's pair table vs. the table this driver enumerates (informational) */
static void c20_pairs_child(shm_t *sh)
{
	c20_worker_init(1);
	static const uint8_t b[] = { 'A', 'A' };
	int bad = 0; size_t k = 0;
	for (int in = 0; in < NF; in++) for (int out = 0; out < NF; out++) {
		if (c20_supported(in, out)) continue;
		dispatch_data_t d = c20_build(b, 2, 0);
		dispatch_data_t r = dispatch_data_create_with_transform(d, c20_ftype(in), c20_ftype(out));
		if (r) {
			bad++;
			if (k + 40 < sizeof sh->pairnote) k += (size_t)snprintf(sh->pairnote + k, sizeof sh->pairnote - k, "%s->%s accepted; ", c20_fname[in], c20_fname[out]);
			dispatch_release(r);
		}
		dispatch_release(d);
	}
	if (!bad) snprintf(sh->pairnote, sizeof sh->pairnote, "all 36 pairs outside the 28 enumerated ones return NULL");
	_exit(0);
}
static void c20_run_child(void (*fn)(shm_t *), shm_t *sh)
{
	pid_t p = fork();
	if (p == 0) fn(sh);
	int st; while (waitpid(p, &st, 0) < 0 && errno == EINTR) {}
}

static int c20_replay(const char *path)
{
	FILE *f = fopen(path, "r");
	if (!f) { fprintf(stderr, "cannot open %s\n", path); return 2; }
	static char buf[16384]; size_t n = fread(buf, 1, sizeof buf - 1, f); buf[n] = 0; fclose(f);
	const char *in = strstr(buf, "\"input\":");
	if (!in) { fprintf(stderr, "no input in %s\n", path); return 2; }
	kase k; memset(&k, 0, sizeof k);
	k.spkind = (int)c20_jint(in, "spkind", 0); k.len = (int)c20_jint(in, "len", 0); k.mask = (uint32_t)c20_jint(in, "mask", 0);
	k.in = (int)c20_jint(in, "in", 0); k.out = (int)c20_jint(in, "out", 0);
	k.inv_in = (int)c20_jint(in, "inv_in", 0); k.inv_out = (int)c20_jint(in, "inv_out", 0);
	k.need_nonnull = (int)c20_jint(in, "need_nonnull", 0);
	k.has_efwd = (int)c20_jint(in, "has_efwd", 0); k.efwd_norm = (int)c20_jint(in, "efwd_norm", 0); k.efwd_note = (int)c20_jint(in, "efwd_note", 0);
	k.has_ert = (int)c20_jint(in, "has_ert", 0); k.ert_norm = (int)c20_jint(in, "ert_norm", 0);
	k.base0 = (int)c20_jint(in, "base0", 0); k.origin = (int)c20_jint(in, "origin", 0);
	if (k.len < 0 || k.len > MAXIN || k.in < 0 || k.in >= NF || k.out < 0 || k.out >= NF) { fprintf(stderr, "bad replay file\n"); return 2; }
	c20_jhex(in, "bytes", k.bytes, MAXIN);
	k.efwd_len = c20_jhex(in, "efwd", k.efwd, MAXEXP);
	k.ert_len = c20_jhex(in, "ert", k.ert, MAXEXP);
	char hb[3 * MAXIN + 1], fr[160];
	c20_hex(k.bytes, k.len, hb, sizeof hb); c20_fragstr(k.len, k.mask, fr, sizeof fr);
	printf("replay: %s->%s bytes=[%s] regions=[%s]%s\n", c20_fname[k.in], c20_fname[k.out], hb, fr, k.origin ? " (encoder output re-fragmented)" : "");
	fflush(stdout);
	shm_t *sh = mmap(NULL, sizeof(shm_t), PROT_READ | PROT_WRITE, MAP_SHARED | MAP_ANONYMOUS, -1, 0);
	sup_t *S = &sh->sup[0];
	S->curk = k;
	pid_t p = fork();
	if (p == 0) {
		g_S = S; g_quickexit = 0;   /* let AddressSanitizer print its full report */
		res r; c20_run(&k, NULL, &r);
		char hf[3 * RB + 1], hi[3 * RB + 1], vb[224];
		c20_hex(r.r, r.rlen, hf, sizeof hf); c20_hex(r.i, r.ilen, hi, sizeof hi);
		printf("  forward %s->%s: %s%s\n", c20_fname[k.in], c20_fname[k.out], r.fwd_null ? "NULL" : r.v == V_BADOBJ_F ? "(invalid object) " : "", r.fwd_null ? "" : hf);
		if (r.inv_run) printf("  inverse %s->%s: %s%s\n", c20_fname[k.inv_in], c20_fname[k.inv_out], r.inv_null ? "NULL" : "", r.inv_null ? "" : hi);
		if (k.has_ert) { c20_hex(k.ert, k.ert_len, hi, sizeof hi); printf("  expected round trip (modulo leading BOMs): %s\n", hi); }
		if (k.has_efwd && !k.efwd_note) { c20_hex(k.efwd, k.efwd_len, hi, sizeof hi); printf("  expected forward: %s\n", hi); }
		printf("  verdict: %s%s%s\n", c20_vtext(&k, &r, vb, sizeof vb), r.detail[0] ? " -- " : "", r.detail);
		fflush(stdout);
		_exit(r.v ? 1 : 0);
	}
	int st; while (waitpid(p, &st, 0) < 0 && errno == EINTR) {}
	if (WIFEXITED(st) && WEXITSTATUS(st) <= 1) { printf("replay result: %s\n", WEXITSTATUS(st) ? "VIOLATION reproduced" : "no violation"); return WEXITSTATUS(st); }
	/* crashed: run again in capture mode to name the frame */
	p = fork();
	if (p == 0) { g_S = S; g_quickexit = 1; c20_worker_init(1); alarm(HANG_S); res r; c20_run(&k, NULL, &r); _exit(0); }
	int st2; while (waitpid(p, &st2, 0) < 0 && errno == EINTR) {}
	char what[224], fn[160], trace[180]; int derr;
	c20_describe_death(S, st2, what, sizeof what, fn, sizeof fn, trace, sizeof trace, &derr);
	printf("  verdict: %s\n  frames: %s\nreplay result: VIOLATION reproduced\n", what, trace);
	return 1;
}

/* ------------------------------------------------------------------ */
/* master                                                              */

static size_t c20_app(char *o, size_t cap, const char *fmt, ...)
{
	if (cap < 2) return 0;
	va_list ap; va_start(ap, fmt);
	int n = vsnprintf(o, cap, fmt, ap);
	va_end(ap);
	return n < 0 ? 0 : (size_t)n >= cap ? cap - 1 : (size_t)n;
}
static int c20_u64cmp(const void *a, const void *b)
{
	uint64_t x = *(const uint64_t *)a, y = *(const uint64_t *)b;
	return x < y ? -1 : x > y;
}
static int c20_clscmp(const void *a, const void *b)
{
	const cls *x = a, *y = b;
	int c = c20_kcmp(&x->ex, &y->ex);
	return c ? c : strcmp(x->key, y->key);
}
static void c20_pairs_text(uint64_t pairs, char *o, size_t cap)
{
	size_t k = 0; o[0] = 0;
	for (int i = 0; i < 64; i++) if ((pairs >> i) & 1 && k + 24 < cap)
		k += (size_t)snprintf(o + k, cap - k, "%s\"%s->%s\"", k ? ", " : "", c20_fname[i / 8], c20_fname[i % 8]);
}

int main(int argc, char **argv)
{
	const char *tier = "quick", *json = NULL, *replay = NULL;
	for (int i = 1; i < argc; i++) {
		if (!strcmp(argv[i], "--tier") && i + 1 < argc) tier = argv[++i];
		else if (!strcmp(argv[i], "--json") && i + 1 < argc) json = argv[++i];
		else if (!strcmp(argv[i], "--replay") && i + 1 < argc) replay = argv[++i];
		else { fprintf(stderr, "usage: %s --tier quick|thorough --json FILE | --replay FILE\n", argv[0]); return 2; }
	}
	setvbuf(stdout, NULL, _IOLBF, 0);
	if (replay) return c20_replay(replay);
	g_thorough = !strcmp(tier, "thorough");
	if (!g_thorough && strcmp(tier, "quick")) { fprintf(stderr, "unknown tier %s\n", tier); return 2; }
	g_t0 = c20_now();
	g_deadline = g_t0 + (g_thorough ? 840.0 : 80.0);
	static char bound[4000];
	g_refrag_len0 = 3;
	if (!g_thorough) {
		c20_add_space("bytes15", 0, A15, NULL, 15, 0, 4);
		c20_add_space("bytes6-len5", 0, R6, NULL, 6, 5, 5);
		c20_add_space("encode3", 1, A3, NULL, 3, 0, 8);
		c20_add_space("text14", 2, NULL, CPS, NCPS, 0, 3);
		g_cap_fu16 = 200; g_cap_total = 2500;
		snprintf(bound, sizeof bound, "all byte strings len<=4 over 15 byte classes + len 5 over 6 classes, x all fragmentations x 28 format pairs; "
			"base encoders: all strings len<=8 over {00,a5,ff} x all fragmentations, decoding re-checked under all fragmentations of the encoded text (<=8 chars; <=3 regions beyond), also for the len<=3 strings of the first space; "
			"well-formed text: all sequences of <=3 code points from 14 boundary code points in UTF-8/16LE/16BE x all fragmentations");
	} else {
		c20_add_space("bytes15", 0, A15, NULL, 15, 0, 4);
		c20_add_space("encode3", 1, A3, NULL, 3, 0, 9);
		c20_add_space("text14", 2, NULL, CPS, NCPS, 0, 3);
		c20_add_space("bytes6-len6", 0, R6, NULL, 6, 6, 6);
		c20_add_space("bytes4-len7", 0, R4, NULL, 4, 7, 7);
		c20_add_space("text6-4cp", 2, NULL, CPS6, 6, 4, 4);
		c20_add_space("bytes15-len5", 0, A15, NULL, 15, 5, 5);
		g_cap_fu16 = 3000; g_cap_total = 30000;
		snprintf(bound, sizeof bound, "all byte strings len<=5 over 15 byte classes + len 6 over 6 classes + len 7 over 4 classes, x all fragmentations x 28 format pairs; "
			"base encoders: all strings len<=9 over {00,a5,ff} x all fragmentations, decoding re-checked under all fragmentations of the encoded text (<=8 chars; <=3 regions beyond), also for the len<=3 strings of the first space; "
			"well-formed text: all sequences of <=3 code points from 14 boundary code points + all 4-code-point sequences over {U+41,U+80,U+800,U+FEFF,U+10000,U+1F600} in UTF-8/16LE/16BE x all fragmentations");
	}
	shm_t *sh = mmap(NULL, sizeof(shm_t), PROT_READ | PROT_WRITE, MAP_SHARED | MAP_ANONYMOUS, -1, 0);
	if (sh == MAP_FAILED) { perror("mmap"); return 2; }
	g_shm = sh;
	c20_run_child(c20_samples_child, sh);
	c20_run_child(c20_pairs_child, sh);
	pid_t sp[NSUP];
	for (int i = 0; i < NSUP; i++) {
		sup_t *S = &sh->sup[i];
		S->id = i; S->cur.valid = 1; S->cur.space = 0; S->cur.unit = (uint64_t)i;
		sp[i] = fork();
		if (sp[i] < 0) { perror("fork"); return 2; }
		if (sp[i] == 0) c20_supervise(S);
	}
	int derr = 0; char errmsg[300] = "";
	for (int i = 0; i < NSUP; i++) {
		int st; while (waitpid(sp[i], &st, 0) < 0 && errno == EINTR) {}
		if (!WIFEXITED(st) || WEXITSTATUS(st) != 0) { derr = 1; snprintf(errmsg, sizeof errmsg, "supervisor %d died (status 0x%x)", i, st); }
		if (sh->sup[i].driver_error) { derr = 1; snprintf(errmsg, sizeof errmsg, "supervisor %d: %s", i, sh->sup[i].errmsg); }
	}
	/* merge (order independent) */
	static cls classes[NCLS * 2], notes[NNOTE * 2];
	static uint64_t outc[NOUTC * NSUP]; size_t nout = 0;
	uint64_t states = 0, transitions = 0, evals = 0, deaths = 0, skipped = 0, units = 0, masked = 0, skipped_sp[MAXSPACE] = { 0 }, deaths_sp[MAXSPACE] = { 0 };
	int timeout = 0, aborted[MAXSPACE] = { 0 }, skip_from[MAXSPACE] = { 0 };
	for (int i = 0; i < NSUP; i++) {
		sup_t *S = &sh->sup[i];
		states += S->states; transitions += S->transitions; evals += S->evals; deaths += S->deaths; skipped += S->skipped; units += S->units; masked += S->masked;
		timeout |= S->timeout;
		for (int s = 0; s < g_nsp; s++) {
			aborted[s] |= S->aborted[s]; skipped_sp[s] += S->skipped_sp[s]; deaths_sp[s] += S->deaths_sp[s];
			if (S->skip_from_len[s] && (!skip_from[s] || S->skip_from_len[s] < skip_from[s])) skip_from[s] = S->skip_from_len[s];
		}
		for (int j = 0; j < NCLS; j++) if (S->classes[j].used)
			c20_record_into(classes, NCLS * 2, S->classes[j].key, S->classes[j].what, S->classes[j].detail, &S->classes[j].ex, S->classes[j].count, S->classes[j].pairs);
		for (int j = 0; j < NNOTE; j++) if (S->notes[j].used)
			c20_record_into(notes, NNOTE * 2, S->notes[j].key, S->notes[j].what, S->notes[j].detail, &S->notes[j].ex, S->notes[j].count, S->notes[j].pairs);
		for (int j = 0; j < NOUTC; j++) if (S->outc[j]) outc[nout++] = S->outc[j];
	}
	int ncls = 0, nnotes = 0;
	while (ncls < NCLS * 2 && classes[ncls].used) ncls++;
	while (nnotes < NNOTE * 2 && notes[nnotes].used) nnotes++;
	qsort(classes, (size_t)ncls, sizeof(cls), c20_clscmp);
	qsort(notes, (size_t)nnotes, sizeof(cls), c20_clscmp);
	/* distinct outcomes */
	uint64_t distinct = 0;
	qsort(outc, nout, sizeof(uint64_t), c20_u64cmp);
	for (size_t a = 0; a < nout; a++) if (a == 0 || outc[a] != outc[a - 1]) distinct++;
	int exhaustive = !timeout && !skipped && !masked && !derr;
	for (int s = 0; s < g_nsp; s++) if (aborted[s]) exhaustive = 0;
	double wall = c20_now() - g_t0;

	char exe[512]; ssize_t el = readlink("/proc/self/exe", exe, sizeof exe - 1); exe[el > 0 ? el : 0] = 0;
	mkdir("/verif/out", 0755); mkdir("/verif/out/replay", 0755);
	int nlist = ncls > 24 ? 24 : ncls;
	FILE *jf = json ? fopen(json, "w") : stdout;
	if (!jf) { perror(json); return 2; }
	size_t bl = strlen(bound);
	for (int s = 0; s < g_nsp; s++) {
		if (skipped_sp[s]) bl += c20_app(bound + bl, bl < sizeof bound ? sizeof bound - bl : 0, "; CUT in space %s: %llu transform cases (len>=%d) predicted to crash in _dispatch_transform_from_utf16 (odd-sized inner UTF-16 region) or _dispatch_transform_to_utf16 (second look-ahead in a region) skipped after %llu crashing cases in this space",
			g_sp[s].name, (unsigned long long)skipped_sp[s], skip_from[s], (unsigned long long)deaths_sp[s]);
		if (aborted[s]) bl += c20_app(bound + bl, bl < sizeof bound ? sizeof bound - bl : 0, "; space %s ABORTED after %llu crashing cases", g_sp[s].name, (unsigned long long)deaths_sp[s]);
	}
	if (masked) bl += c20_app(bound + bl, bl < sizeof bound ? sizeof bound - bl : 0, "; %llu output formats not run for inputs whose decode stage had already crashed or returned a corrupt object", (unsigned long long)masked);
	if (timeout) c20_app(bound + bl, bl < sizeof bound ? sizeof bound - bl : 0, "; CUT by the wall-clock deadline");
	fprintf(jf, "{\"name\": \"transform_c20\", \"property\": \"C20\", \"tier\": \"%s\", \"bound\": \"%s\",\n", tier, bound);
	fprintf(jf, " \"states\": %llu, \"transitions\": %llu, \"evaluations\": %llu, \"distinct_outcomes\": %llu, \"traces_validated_against_impl\": %llu,\n",
		(unsigned long long)states, (unsigned long long)transitions, (unsigned long long)evals, (unsigned long long)distinct, (unsigned long long)evals);
	fprintf(jf, " \"units\": %llu, \"crashing_cases\": %llu, \"cases_skipped\": %llu, \"cases_masked_by_decode_failure\": %llu, \"exhaustive\": %s, \"wall_s\": %.1f,\n",
		(unsigned long long)units, (unsigned long long)deaths, (unsigned long long)skipped, (unsigned long long)masked, exhaustive ? "true" : "false", wall);
	fprintf(jf, " \"spaces\": [");
	for (int s = 0; s < g_nsp; s++) {
		uint64_t us = 0, ss = 0;
		for (int i = 0; i < NSUP; i++) { us += sh->sup[i].units_sp[s]; ss += sh->sup[i].states_sp[s]; }
		fprintf(jf, "%s{\"name\": \"%s\", \"units\": %llu, \"of\": %llu, \"inputs\": %llu, \"crashing_cases\": %llu, \"cases_skipped\": %llu}", s ? ", " : "",
			g_sp[s].name, (unsigned long long)us, (unsigned long long)g_sp[s].nunits, (unsigned long long)ss, (unsigned long long)deaths_sp[s], (unsigned long long)skipped_sp[s]);
	}
	fprintf(jf, "],\n \"pair_table\": \"%s\",\n \"samples\": [", sh->pairnote);
	for (int i = 0; i < sh->nsamples; i++) fprintf(jf, "%s\n  %s", i ? "," : "", sh->samples[i]);
	fprintf(jf, "],\n \"violations_list\": [");
	for (int i = 0; i < nlist; i++) {
		char sig[700], rp[256], pt[700];
		c20_sig_text(&classes[i], sig, sizeof sig);
		snprintf(rp, sizeof rp, "/verif/out/replay/C20-transform_c20-%d.json", i);
		c20_pairs_text(classes[i].pairs, pt, sizeof pt);
		FILE *rf = fopen(rp, "w");
		if (rf) {
			fprintf(rf, "{\"engine\": \"seqx\", \"replay_cmd\": [\"%s\", \"--replay\", \"{replay}\"],\n \"signature\": \"%s\",\n \"input\": ", exe, sig);
			c20_kase_json(rf, &classes[i].ex);
			fprintf(rf, "}\n");
			fclose(rf);
		}
		fprintf(jf, "%s\n  {\"signature\": \"%s\", \"replay\": \"%s\", \"class\": \"%s\", \"count\": %llu, \"detail\": \"%s\", \"pairs\": [%s]}",
			i ? "," : "", sig, rp, classes[i].key, (unsigned long long)classes[i].count, classes[i].detail, pt);
	}
	fprintf(jf, "],\n \"violation_classes\": %d,\n \"notes\": [", ncls);
	for (int i = 0; i < nnotes; i++) {
		char sig[700]; c20_sig_text(&notes[i], sig, sizeof sig);
		fprintf(jf, "%s\n  {\"note\": \"%s\", \"count\": %llu}", i ? "," : "", sig, (unsigned long long)notes[i].count);
	}
	fprintf(jf, "]%s%s%s}\n", derr ? ",\n \"driver_error\": \"" : "", derr ? errmsg : "", derr ? "\"" : "");
	if (json) fclose(jf);
	printf("transform_c20 tier=%s states=%llu transitions=%llu evaluations=%llu distinct=%llu crashing=%llu skipped=%llu classes=%d exhaustive=%d wall=%.1fs\n",
		tier, (unsigned long long)states, (unsigned long long)transitions, (unsigned long long)evals, (unsigned long long)distinct,
		(unsigned long long)deaths, (unsigned long long)skipped, ncls, exhaustive, wall);
	for (int i = 0; i < nlist; i++) { char sig[700]; c20_sig_text(&classes[i], sig, sizeof sig); printf("VIOLATION-CLASS %d (x%llu): %s\n", i, (unsigned long long)classes[i].count, sig); }
	if (derr) { printf("DRIVER-ERROR %s\n", errmsg); return 2; }
	return ncls ? 1 : 0;
}
