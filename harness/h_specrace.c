// C18 (scheduled half, mutation of the key list) — queue-specific data set, replaced and removed from several threads
//
// The key list of a queue is allocated lazily by the first dispatch_queue_set_specific and is then edited under its
// own lock.  Scenarios (two or three threads on one fresh queue):
//   0: two threads set two different keys (the first set of each races the lazy allocation)
//   1: two threads set the same key to different values
//   2: one thread replaces the value of a key twice while another reads it with dispatch_queue_get_specific
//   3: one thread removes a key (NULL value) while another sets a second key
//   4: three keys set from one thread, the middle one removed, then the first replaced; a racing reader
// Oracle: every destructor runs exactly once per value that was ever installed and then replaced, removed or left
// behind at dispose, with that value as its argument; after the threads have joined, dispatch_queue_get_specific
// returns for every key the last value installed (for scenario 1: one of the two); reads made while the writers run
// return NULL or one of the values ever installed for that key; ASan watches the list memory.
#include "hcommon.h"
#include <dispatch/private.h>

static const char *const NAMES[] = {
	"two threads set two different keys on a fresh queue (the lazy allocation of the key list races)",
	"two threads set the same key to different values",
	"one thread replaces a key's value twice while another reads it",
	"one thread removes a key while another sets a second key",
	"three keys set, the middle one removed, the first replaced, with a racing reader",
};
#define NSC ((int)(sizeof(NAMES) / sizeof(NAMES[0])))
enum { EV_DTOR = EV_USER, EV_READ, EV_FINALREAD };
static const char K1 = 0, K2 = 0, K3 = 0;
static char VALS[8] = "abcdefg";     // value i is &VALS[i]; id of a value = its index + 1
static dispatch_queue_t g_q;
static int g_scen, g_dtors;

static void dtor(void *v) { vx_ev(EV_DTOR, (int)((char *)v - VALS) + 1, 0); g_dtors++; }
static void set(const void *key, int val) { dispatch_queue_set_specific(g_q, key, val ? &VALS[val - 1] : NULL, dtor); }
static void readk(int keyno, const void *key) { void *p = dispatch_queue_get_specific(g_q, key); vx_ev(EV_READ, keyno, p ? (int)((char *)p - VALS) + 1 : 0); }

static void t1_fn(void *arg)
{
	(void)arg;
	switch (g_scen) {
	case 0: set(&K2, 2); break;
	case 1: set(&K1, 2); break;
	case 2: readk(1, &K1); readk(1, &K1); break;
	case 3: set(&K2, 3); break;
	case 4: readk(1, &K1); readk(2, &K2); readk(3, &K3); break;
	}
}

static int nvariants(void) { return NSC; }
static void describe(int v, char *b, size_t n) { snprintf(b, n, "%s", NAMES[v]); }
static void warm_fn(void *c) { *(int *)c = 1; }
static int pred_dtors(void *n) { return g_dtors >= (int)(intptr_t)n; }

static void run(int v)
{
	g_scen = v; g_dtors = 0;
	vx_set_horizon(12ull * 1000000000ull);
	g_q = dispatch_queue_create("vx.specrace", NULL);
	int expect_dtors = 0;
	// destructors are submitted to the default global queue: start its worker before the explored window
	int d = 0; dispatch_async_f(dispatch_get_global_queue(0, 0), &d, warm_fn); int *a[2] = { &d, (int *)(intptr_t)1 }; vx_wait_until(pred_int_ge, a);
	if (v == 2) set(&K1, 1);
	if (v == 3) { set(&K1, 1); }
	vx_focus_begin();
	int th = vx_thread(t1_fn, NULL);
	switch (v) {
	case 0: set(&K1, 1); expect_dtors = 2; break;
	case 1: set(&K1, 1); expect_dtors = 2; break;
	case 2: set(&K1, 2); set(&K1, 3); expect_dtors = 3; break;
	case 3: set(&K1, 0); expect_dtors = 2; break;
	case 4: set(&K1, 1); set(&K2, 2); set(&K3, 3); set(&K2, 0); set(&K1, 4); expect_dtors = 4; break;
	}
	vx_join(th);
	const void *keys[3] = { &K1, &K2, &K3 };
	for (int i = 0; i < 3; i++) { void *p = dispatch_queue_get_specific(g_q, keys[i]); vx_ev(EV_FINALREAD, i + 1, p ? (int)((char *)p - VALS) + 1 : 0); }
	dispatch_release(g_q);       // remaining values are destroyed with the queue (on a library queue)
	vx_wait_until(pred_dtors, (void *)(intptr_t)expect_dtors);
	vx_focus_end();
	vx_set_horizon(vx_vt() + 1000 * MS);
	vx_sleep_ns(2 * MS);         // a second invocation of a destructor would land here
}

static int check(int v, const vx_log *l, char *msg, size_t len)
{
	// values ever installed per key, and the expected final value(s)
	static const int INSTALLED[5][3][3] = {
		{ {1}, {2}, {0} }, { {1, 2}, {0}, {0} }, { {1, 2, 3}, {0}, {0} }, { {1}, {3}, {0} }, { {1, 4}, {2}, {3} } };
	static const int FINAL[5][3][2] = {
		{ {1, 1}, {2, 2}, {0, 0} }, { {1, 2}, {0, 0}, {0, 0} }, { {3, 3}, {0, 0}, {0, 0} }, { {0, 0}, {3, 3}, {0, 0} }, { {4, 4}, {0, 0}, {3, 3} } };
	int nd[8] = { 0 };
	for (uint32_t i = 0; i < l->n; i++) {
		const vx_event *e = &l->ev[i];
		if (e->kind == EV_DTOR) {
			if (e->id < 1 || e->id > 7) FAILF(msg, len, "destructor called with a pointer that was never installed");
			nd[e->id]++;
		}
		if (e->kind == EV_READ && e->arg) {
			int ok = 0; for (int k = 0; k < 3; k++) if (INSTALLED[v][e->id - 1][k] == e->arg) ok = 1;
			if (!ok) FAILF(msg, len, "dispatch_queue_get_specific(key %d) returned value %lld which was never installed for that key", e->id, (long long)e->arg);
		}
		if (e->kind == EV_FINALREAD) {
			const int *f = FINAL[v][e->id - 1];
			if (e->arg != f[0] && e->arg != f[1]) FAILF(msg, len, "after all writers returned dispatch_queue_get_specific(key %d) returned value %lld, expected %d%s", e->id, (long long)e->arg, f[0], f[0] != f[1] ? " or the other writer's" : "");
		}
	}
	for (int k = 0; k < 3; k++) for (int j = 0; j < 3; j++) {
		int val = INSTALLED[v][k][j];
		if (val && nd[val] != 1) FAILF(msg, len, "the destructor of value %d (key %d) ran %d times (expected exactly once: replaced, removed or destroyed with the queue)", val, k + 1, nd[val]);
	}
	return 0;
}

const vx_harness h_specrace = { "specrace", "C18", nvariants, describe, run, check, 0, 0 };
