// internal interface between the in-child scheduler (vx.c) and the parent
// explorer (explore.c)
#ifndef VX_INT_H
#define VX_INT_H
#include "vx.h"

enum {
	V_NONE = 0,   // child died without reporting (crash / sanitizer / kill)
	V_OK,
	V_ORACLE,     // harness oracle rejected the event log
	V_STUCK,      // stuck witness: nothing enabled & no deadline, or horizon passed
	V_STEPCAP,    // per-execution step cap hit (inconclusive)
	V_NONDET,     // replay diverged from the recorded prefix (engine error)
	V_ENGINE,     // scheduler internal error / unmodelled call
};

typedef struct vx_point_rec {
	uint8_t total;    // number of choices offered (threads + deadlines)
	uint8_t nthr;     // ... of which enabled threads (canonical order)
	uint8_t self_en;  // 1 if choice 0 is "running thread continues"
	uint8_t choice;   // choice taken
	uint32_t hash;    // trace hash when the point was reached
} vx_point_rec;

typedef struct vx_prefix_ent {
	uint32_t pos;
	uint32_t hash;
	uint8_t choice;
	uint8_t total;
	uint8_t cost;
	uint8_t pad;
} vx_prefix_ent;

#define VX_MAXPTS 60000
#define VX_MAXPREFIX 512

typedef struct vx_result {
	// in
	uint32_t plen;
	vx_prefix_ent prefix[VX_MAXPREFIX];
	int trace;
	// out
	int verdict;
	int expect_crash;
	char msg[2048];
	uint32_t npoints;
	uint64_t nsteps;
	uint32_t maxthreads;
	uint32_t nspurious;   // waits that were answered without a wake-up in this execution
	uint64_t vt_end;
	uint64_t outcome_hash;
	uint64_t trace_hash;
	vx_log log;
	vx_point_rec pts[VX_MAXPTS];
} vx_result;

// child side entry: run harness h / variant v under the scheduler, reporting
// into *res; never returns
void vx_child_main(const vx_harness *h, int variant, vx_result *res,
		uint64_t stepcap) __attribute__((noreturn));

#endif
