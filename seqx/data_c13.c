/*
 * seqx driver for property C13: "dispatch_data objects behave as immutable
 * byte strings".
 *
 * ENGINE: explicit-state breadth-first search over TERMS of the dispatch_data
 * algebra with canonical-state de-duplication, against a plain byte-string
 * model; plus an exhaustive release-order (lifetime) phase.  No sampling.
 *
 * TERMS
 *   leaves  E (dispatch_data_empty), L1="a", L2="bc", L3="def"
 *   cat(a,b)        dispatch_data_create_concat
 *   sub(a,off,len)  dispatch_data_create_subrange, off in {0..size+1, MAX},
 *                   len in {0..size+1, MAX, MAX-off}
 *   map(a)          dispatch_data_create_map (the returned object)
 *   reg(a,loc)      dispatch_data_copy_region, loc in {0..size+1, MAX}
 * The three leaves are created in 5 "leaf-kind configurations" (counting
 * destructor block on a private serial queue / DESTRUCTOR_FREE / DEFAULT copy /
 * DESTRUCTOR_NONE / create_alloc (inline storage) / create_f function
 * destructor); the whole search is repeated for each configuration and the
 * reached canonical state sets must be identical.
 *
 * CANONICAL STATE = size + the list of (buffer identity, offset in buffer,
 * length) regions reported by dispatch_data_apply, where buffer identity is
 * "Lk" when the region pointer lies inside leaf k's buffer and "M<content>"
 * for a buffer the library allocated itself (dispatch_data_create_map of a
 * composite), identified by content.
 *
 * WHY MERGING STATES WITH EQUAL CANONICAL FORM IS SOUND (same futures).
 *   Reading src/data.c: every operation consults only dd->size, the record
 *   list (records[i].{data_object,from,length}; a leaf counts as the single
 *   record {self,0,size}) and, through _dispatch_data_map_direct, the leaf
 *   buffer pointers.  concat copies the record lists; subrange walks the record
 *   lengths and trims from/length; apply/copy_region/flatten walk the records
 *   and read leaf->buf+from.  dispatch_data_apply reports exactly one region
 *   per record with pointer leaf->buf+from and size length, so the canonical
 *   form determines the record list up to (a) which of several equal-content
 *   library copies "M.." is referenced, (b) whether a one-record object is the
 *   leaf itself or a trivial subrange covering the whole leaf (sub(L2,0,3)),
 *   (c) reference counts.  None of (a)-(c) is consulted by any operation when
 *   computing bytes/records of its result (the code treats num_records 0 and
 *   the whole-leaf trivial subrange alike via _dispatch_data_num_records /
 *   _dispatch_data_map_direct).  Objects flattened in place by
 *   dispatch_data_get_flattened_bytes_4libxpc would break this (apply then
 *   shows one region but subrange still sees the records), which is why
 *   flattening never enters the pool: it is exercised as a one-step observer
 *   on fresh objects only.
 *   Because this argument is by code reading, every canonical state that is
 *   reached by two different terms keeps BOTH objects in the pool and every
 *   operation is applied to both; the two results must have equal canonical
 *   forms and equal bytes ("differential" violation otherwise).
 *
 * ORACLE on every term: see check_object() (size, apply tiling + early stop +
 * apply_f, create_map, copy_region at every location, in-place flattening);
 * around every operation the external retain counts of the operands and leaves
 * must be unchanged once the result has been released again (rc_check, an
 * attribution aid that uses the internal _os_object_retain_count).
 * LIFETIME: see run_lifetime() - every operation application up to a smaller
 * depth whose DAG has <= 4 handles is rebuilt from scratch for every release
 * order x 3 variants, draining the private destructor queue after each release.
 *
 * BOUNDS (TIERS[]): quick = objects <= 4 records / <= 8 bytes, operation depth
 * <= 3, all five leaf-kind configurations.  thorough = <= 6 records / <= 12
 * bytes; depth 4 for the configurations block/free/default and none/alloc/func
 * (together: every leaf kind) and depth 3 for the other three (depth 4 is ~44 M
 * work items on ~26.5 M canonical states per configuration; configurations are
 * checked to reach identical canonical state sets level by level).  concat(a,b) is applied
 * when size(a)+size(b) and records(a)+records(b) stay within the bound.
 * States of the last depth are never expanded, hence never pooled: they are only
 * counted, in a shared set keyed by the 64-bit hash of the canonical form.
 *
 * PROCESS STRUCTURE: main forks one "config master" per leaf-kind
 * configuration.  A master owns the pool of live objects (it never releases
 * them, so no destructor and no libdispatch thread ever runs in it, which keeps
 * fork() safe) and, for each BFS level, forks workers that inherit the pool,
 * apply their share of the operations, run the oracle and write candidate new
 * states.  A worker publishes the item it is about to run in a shared page; if
 * it dies (ASan exit 66 / signal) the master attributes the death to exactly
 * that item, confirms it by rebuilding that single term from scratch in a fresh
 * child (ASan log captured), and restarts the worker after it.
 */
#define _GNU_SOURCE
#include <dispatch/dispatch.h>
#include <dispatch/private.h>
#include <Block.h>
#include <stdio.h>
#include <stdlib.h>
#include <string.h>
#include <stdint.h>
#include <stdbool.h>
#include <stdarg.h>
#include <stddef.h>
#include <unistd.h>
#include <fcntl.h>
#include <errno.h>
#include <time.h>
#include <signal.h>
#include <sys/mman.h>
#include <sys/wait.h>
#include <sys/stat.h>

extern int __asan_address_is_poisoned(void const volatile *addr);
/* Internal (non-exported, but linkable from the static library) accessor of an
 * object's external reference count, src/object.c.  Used ONLY to attribute a
 * reference-count bug to the operation that caused it: applying an operation,
 * observing the result and releasing it again must leave the retain counts of
 * the operands and leaves unchanged - a drift is a leak (destructor never runs)
 * or an over-release (destructor runs early), i.e. a C13 lifetime violation
 * that would otherwise only surface later as an ASan report on another term. */
extern unsigned long _os_object_retain_count(void *obj);
const char *__asan_default_options(void);
const char *__asan_default_options(void)
{
	return "detect_leaks=0:exitcode=66:handle_sigill=1:handle_abort=1:"
	       "quarantine_size_mb=32:detect_odr_violation=0";
}

#define PROP "C13"
#define NAME "data_c13"
#define OUTDIR "/verif/out"
#define TMPDIR "/verif/out/tmp"
#define REPLAYDIR "/verif/out/replay"

/* ------------------------------------------------------------------ util */
static double now_s(void)
{
	struct timespec ts;
	clock_gettime(CLOCK_MONOTONIC, &ts);
	return (double)ts.tv_sec + (double)ts.tv_nsec * 1e-9;
}
static void die(const char *fmt, ...)
{
	va_list ap;
	va_start(ap, fmt);
	fprintf(stderr, NAME ": driver error: ");
	vfprintf(stderr, fmt, ap);
	fprintf(stderr, "\n");
	va_end(ap);
	exit(2);
}
static void *xmalloc(size_t n)
{
	void *p = malloc(n ? n : 1);
	if (!p) die("out of memory");
	return p;
}
static void *xrealloc(void *p, size_t n)
{
	p = realloc(p, n ? n : 1);
	if (!p) die("out of memory");
	return p;
}
static char *xstrdup(const char *s)
{
	char *p = xmalloc(strlen(s) + 1);
	strcpy(p, s);
	return p;
}
static uint64_t fnv64(const void *p, size_t n, uint64_t h)
{
	const uint8_t *b = p;
	for (size_t i = 0; i < n; i++) { h ^= b[i]; h *= 0x100000001b3ULL; }
	return h;
}
#define FNV0 0xcbf29ce484222325ULL

/* ------------------------------------------------------------- tiers etc */
typedef struct {
	const char *name;
	int maxrec, maxbytes, maxdepth;
	int life_depth;    /* lifetime phase: terms of depth <= life_depth */
	int life_handles;  /* ... with at most this many live handles */
	double deadline_s;
	int log2_states;   /* capacity of the shared last-level state set */
	bool sequential;   /* run the leaf-kind configurations one after the other */
	bool deep_last;    /* deep post-flatten checks also on the states of the last depth */
	unsigned full_depth_cfgs; /* bit mask of configs searched to maxdepth; the others stop at maxdepth-1 */
} tier_t;
static const tier_t TIERS[] = {
	{ "quick",    4,  8, 3, 2, 4,  75.0, 21, false, true, 0x1f },
	{ "thorough", 6, 12, 4, 3, 4, 840.0, 27, true, false, 0x18 },
};
static tier_t T;
static int g_workers_total = 16;
static double g_t0;

enum { K_BLOCK, K_FREE, K_DEFAULT, K_NONE, K_ALLOC, K_FUNC };
static const char *KIND_NAME[] = { "block", "free", "default", "none", "alloc", "func" };
#define NCONFIG 5
static const int CONFIGS[NCONFIG][3] = {
	{ K_BLOCK,   K_BLOCK, K_BLOCK   },
	{ K_FREE,    K_FREE,  K_FREE    },
	{ K_DEFAULT, K_DEFAULT, K_DEFAULT },
	{ K_BLOCK,   K_FREE,  K_DEFAULT },
	{ K_NONE,    K_ALLOC, K_FUNC    },
};
static const char *CONFIG_NAME[NCONFIG] = {
	"block/block/block", "free/free/free", "default/default/default",
	"block/free/default", "none/alloc/func",
};
static const char *LEAF_BYTES[4] = { "", "a", "bc", "def" };

/* ------------------------------------------------------- byte-string model */
#define MAXB 40
typedef struct { uint8_t b[MAXB]; size_t n; } mstr;

static void m_cat(mstr *r, const mstr *a, const mstr *b)
{
	if (a->n + b->n > MAXB) die("model overflow");
	memcpy(r->b, a->b, a->n);
	memcpy(r->b + a->n, b->b, b->n);
	r->n = a->n + b->n;
}
/* The clamped slice: offset at or past the end, or zero length -> empty;
 * otherwise bytes [off, min(size, off+len)) computed without overflow. */
static void m_sub(mstr *r, const mstr *a, size_t off, size_t len)
{
	r->n = 0;
	if (off >= a->n || len == 0) return;
	size_t n = a->n - off;
	if (len < n) n = len;
	memcpy(r->b, a->b + off, n);
	r->n = n;
}
static void m_fmt(char *out, size_t cap, const uint8_t *b, size_t n)
{
	size_t o = 0;
	for (size_t i = 0; i < n && o + 5 < cap; i++) {
		if (b[i] >= 'a' && b[i] <= 'z') out[o++] = (char)b[i];
		else o += (size_t)snprintf(out + o, cap - o, "\\x%02x", b[i]);
	}
	out[o] = 0;
}

/* ------------------------------------------------------------------ terms */
enum { OP_LEAF, OP_CAT, OP_SUB, OP_MAP, OP_REG };
static const char *OP_NAME[] = { "leaf", "cat", "sub", "map", "reg" };

/* A DAG of term nodes in topological order; root is nd[n-1].  Identical
 * subterms are one node = one library object, exactly as in the pool. */
#define MAXN 48
typedef struct { uint8_t op; int a, b; size_t x, y; } dnode; /* leaf: a = leaf id 0..3 */
typedef struct { int n; dnode nd[MAXN]; } dag_t;

static void fmt_sz(char *o, size_t cap, size_t v, size_t off)
{
	if (v == SIZE_MAX) snprintf(o, cap, "MAX");
	else if (off && off != SIZE_MAX && v == SIZE_MAX - off && v > (SIZE_MAX >> 1))
		snprintf(o, cap, "MAX-%zu", off);
	else if (v > (SIZE_MAX >> 1)) snprintf(o, cap, "MAX-%zu", SIZE_MAX - v);
	else snprintf(o, cap, "%zu", v);
}
static size_t dag_fmt_node(const dag_t *g, int i, char *out, size_t cap)
{
	const dnode *d = &g->nd[i];
	size_t o = 0;
	char s1[32], s2[32];
	if (cap < 48) { if (cap) out[0] = 0; return 0; }
	switch (d->op) {
	case OP_LEAF:
		if (d->a == 0) o += (size_t)snprintf(out, cap, "E");
		else o += (size_t)snprintf(out, cap, "L%d", d->a);
		break;
	case OP_CAT:
		o += (size_t)snprintf(out + o, cap - o, "cat(");
		o += dag_fmt_node(g, d->a, out + o, cap - o);
		if (o + 2 < cap) out[o++] = ',';
		o += dag_fmt_node(g, d->b, out + o, cap - o);
		if (o + 2 < cap) out[o++] = ')';
		out[o] = 0;
		break;
	case OP_SUB:
		o += (size_t)snprintf(out + o, cap - o, "sub(");
		o += dag_fmt_node(g, d->a, out + o, cap - o);
		fmt_sz(s1, sizeof s1, d->x, 0);
		fmt_sz(s2, sizeof s2, d->y, d->x);
		if (o + 70 < cap) o += (size_t)snprintf(out + o, cap - o, ",%s,%s)", s1, s2);
		break;
	case OP_MAP:
		o += (size_t)snprintf(out + o, cap - o, "map(");
		o += dag_fmt_node(g, d->a, out + o, cap - o);
		if (o + 2 < cap) out[o++] = ')';
		out[o] = 0;
		break;
	case OP_REG:
		o += (size_t)snprintf(out + o, cap - o, "reg(");
		o += dag_fmt_node(g, d->a, out + o, cap - o);
		fmt_sz(s1, sizeof s1, d->x, 0);
		if (o + 40 < cap) o += (size_t)snprintf(out + o, cap - o, ",%s)", s1);
		break;
	}
	return o;
}
static void dag_fmt(const dag_t *g, char *out, size_t cap)
{
	out[0] = 0;
	if (g->n) dag_fmt_node(g, g->n - 1, out, cap);
}
static int dag_depth_node(const dag_t *g, int i)
{
	const dnode *d = &g->nd[i];
	if (d->op == OP_LEAF) return 0;
	int da = dag_depth_node(g, d->a);
	int db = d->op == OP_CAT ? dag_depth_node(g, d->b) : 0;
	return 1 + (da > db ? da : db);
}

/* parser for the printed syntax (used by --replay) */
typedef struct { const char *s; dag_t *g; char *keys[MAXN]; } parser_t;
static int parse_size(parser_t *p, size_t *v)
{
	while (*p->s == ' ') p->s++;
	if (!strncmp(p->s, "MAX", 3)) {
		p->s += 3;
		*v = SIZE_MAX;
		if (*p->s == '-') { p->s++; *v = SIZE_MAX - strtoull(p->s, (char **)&p->s, 10); }
		return 0;
	}
	if (*p->s < '0' || *p->s > '9') return -1;
	*v = strtoull(p->s, (char **)&p->s, 10);
	return 0;
}
static int parse_term(parser_t *p)
{
	dnode d = { 0, -1, -1, 0, 0 };
	const char *start;
	while (*p->s == ' ') p->s++;
	start = p->s;
	if (*p->s == 'E') { p->s++; d.op = OP_LEAF; d.a = 0; }
	else if (*p->s == 'L' && p->s[1] >= '1' && p->s[1] <= '3') { d.op = OP_LEAF; d.a = p->s[1] - '0'; p->s += 2; }
	else if (!strncmp(p->s, "cat(", 4)) {
		p->s += 4; d.op = OP_CAT;
		if ((d.a = parse_term(p)) < 0) return -1;
		if (*p->s++ != ',') return -1;
		if ((d.b = parse_term(p)) < 0) return -1;
		if (*p->s++ != ')') return -1;
	} else if (!strncmp(p->s, "sub(", 4)) {
		p->s += 4; d.op = OP_SUB;
		if ((d.a = parse_term(p)) < 0) return -1;
		if (*p->s++ != ',') return -1;
		if (parse_size(p, &d.x)) return -1;
		if (*p->s++ != ',') return -1;
		if (parse_size(p, &d.y)) return -1;
		if (*p->s++ != ')') return -1;
	} else if (!strncmp(p->s, "map(", 4)) {
		p->s += 4; d.op = OP_MAP;
		if ((d.a = parse_term(p)) < 0) return -1;
		if (*p->s++ != ')') return -1;
	} else if (!strncmp(p->s, "reg(", 4)) {
		p->s += 4; d.op = OP_REG;
		if ((d.a = parse_term(p)) < 0) return -1;
		if (*p->s++ != ',') return -1;
		if (parse_size(p, &d.x)) return -1;
		if (*p->s++ != ')') return -1;
	} else return -1;
	size_t kl = (size_t)(p->s - start);
	for (int i = 0; i < p->g->n; i++)
		if (strlen(p->keys[i]) == kl && !strncmp(p->keys[i], start, kl)) return i;
	if (p->g->n >= MAXN) return -1;
	p->keys[p->g->n] = xmalloc(kl + 1);
	memcpy(p->keys[p->g->n], start, kl);
	p->keys[p->g->n][kl] = 0;
	p->g->nd[p->g->n] = d;
	return p->g->n++;
}
static int dag_parse(const char *s, dag_t *g)
{
	parser_t p = { s, g, { 0 } };
	g->n = 0;
	int r = parse_term(&p);
	for (int i = 0; i < g->n; i++) free(p.keys[i]);
	if (r < 0 || r != g->n - 1) return -1;
	while (*p.s == ' ') p.s++;
	return *p.s ? -1 : 0;
}

/* -------------------------------------------------------- violation sink */
/* Context of "what is being checked right now", formatted lazily. */
typedef struct {
	int cfg;
	const char *mode;          /* "functional" | "lifetime" */
	void (*fmt_term)(char *out, size_t cap); /* prints the current term */
	char perm[32];             /* lifetime: release order */
	int lvariant;              /* lifetime variant */
} vctx_t;
static vctx_t VC;
static int g_nfail;            /* failures since last reset */
static int g_vfd = -1;         /* where V lines go (worker result file); -1 = stdout human */
static int g_verbose;

static void report(const char *cls, const char *fmt, ...)
{
	char detail[400], term[1024], line[1800];
	va_list ap;
	va_start(ap, fmt);
	vsnprintf(detail, sizeof detail, fmt, ap);
	va_end(ap);
	for (char *c = detail; *c; c++) if (*c == '\t' || *c == '\n') *c = ' ';
	term[0] = 0;
	if (VC.fmt_term) VC.fmt_term(term, sizeof term);
	g_nfail++;
	if (g_vfd < 0) {
		printf("VIOLATION %s: %s [config %s, %s%s%s] %s\n", cls, term,
		       CONFIG_NAME[VC.cfg], VC.mode, VC.perm[0] ? " perm=" : "", VC.perm, detail);
		return;
	}
	int n = snprintf(line, sizeof line, "V\t%s\t%d\t%s\t%s\t%s\t%d\t%s\n", cls, VC.cfg,
	                 VC.mode, term, VC.perm[0] ? VC.perm : "-", VC.lvariant, detail);
	if (write(g_vfd, line, (size_t)n) != n) die("write result: %s", strerror(errno));
}
#define FAIL(cls, ...) report(cls, __VA_ARGS__)

/* ------------------------------------------------------------------ world */
/* The leaf objects of one build plus the private serial destructor queue. */
typedef struct {
	int kind;
	bool created;
	dispatch_data_t obj;
	const uint8_t *buf;    /* address through which the object exposes its bytes */
	size_t size;
	uint8_t *own;          /* driver-allocated buffer handed to the library, if any */
	volatile int dtor_count;
} leaf_t;
typedef struct { leaf_t leaf[4]; dispatch_queue_t q; int cfg; } world_t;
static world_t *g_func_world; /* for the create_f function destructor */

static uint64_t g_libcalls;   /* library calls made (ops + observers) */
/* Informational only (NOT part of C13, not a violation): how often the region
 * object handed to a dispatch_data_apply applier is larger than the region it
 * is documented to "represent" (the code passes the whole leaf object for a
 * trimmed record, src/data.c _dispatch_data_apply). */
static uint64_t g_info_region_obj_larger;
#define LC() (g_libcalls++)

static void noop_fn(void *ctx) { (void)ctx; }
static void world_drain(world_t *w)
{
	/* FIFO serial queue: returns after every destructor submitted so far ran */
	dispatch_sync_f(w->q, NULL, noop_fn);
}
static void func_dtor(void *ctx)
{
	world_t *w = g_func_world;
	for (int k = 1; k <= 3; k++)
		if (w && w->leaf[k].created && w->leaf[k].own == ctx) {
			w->leaf[k].dtor_count++;
			free(ctx);
			return;
		}
	abort(); /* destructor called with a context that is not a live leaf buffer */
}
typedef struct { const void *buf; size_t size; int calls; } first_region_t;
static bool first_region_fn(void *ctx, dispatch_data_t region, size_t off, const void *buf, size_t size)
{
	first_region_t *f = ctx;
	(void)region; (void)off;
	if (!f->calls++) { f->buf = buf; f->size = size; }
	return true;
}
static void world_init(world_t *w, int cfg)
{
	memset(w, 0, sizeof *w);
	w->cfg = cfg;
	w->q = dispatch_queue_create("c13.dtor", NULL);
	w->leaf[0].obj = dispatch_data_empty;
	w->leaf[0].created = true;
	w->leaf[0].kind = K_NONE;
}
static dispatch_data_t world_leaf(world_t *w, int k)
{
	leaf_t *l = &w->leaf[k];
	if (l->created) return l->obj;
	size_t n = strlen(LEAF_BYTES[k]);
	l->kind = CONFIGS[w->cfg][k - 1];
	l->size = n;
	l->created = true;
	switch (l->kind) {
	case K_BLOCK:
		l->own = xmalloc(n);
		memcpy(l->own, LEAF_BYTES[k], n);
		l->obj = dispatch_data_create(l->own, n, w->q, ^{ l->dtor_count++; free(l->own); });
		break;
	case K_FREE:
		l->own = xmalloc(n);
		memcpy(l->own, LEAF_BYTES[k], n);
		l->obj = dispatch_data_create(l->own, n, w->q, DISPATCH_DATA_DESTRUCTOR_FREE);
		break;
	case K_DEFAULT: {
		uint8_t *tmp = xmalloc(n);
		memcpy(tmp, LEAF_BYTES[k], n);
		l->obj = dispatch_data_create(tmp, n, w->q, DISPATCH_DATA_DESTRUCTOR_DEFAULT);
		free(tmp); /* the library must have copied: any later use is an ASan UAF */
		break;
	}
	case K_NONE:
		l->own = xmalloc(n);
		memcpy(l->own, LEAF_BYTES[k], n);
		l->obj = dispatch_data_create(l->own, n, w->q, DISPATCH_DATA_DESTRUCTOR_NONE);
		break;
	case K_ALLOC: {
		void *p = NULL;
		l->obj = dispatch_data_create_alloc(n, &p);
		if (p) memcpy(p, LEAF_BYTES[k], n);
		break;
	}
	case K_FUNC:
		l->own = xmalloc(n);
		memcpy(l->own, LEAF_BYTES[k], n);
		g_func_world = w;
		l->obj = dispatch_data_create_f(l->own, n, w->q, func_dtor);
		break;
	}
	LC();
	if (!l->obj) die("leaf creation returned NULL");
	first_region_t f = { 0 };
	dispatch_data_apply_f(l->obj, &f, first_region_fn);
	l->buf = f.buf;
	if (l->own && l->buf != l->own && l->kind != K_DEFAULT) {
		/* no-copy kinds must expose the caller's buffer */
		FAIL("leaf-buffer-copied", "leaf L%d kind %s exposes %p, not the supplied buffer", k,
		     KIND_NAME[l->kind], (const void *)l->buf);
	}
	return l->obj;
}
/* Has the leaf's buffer been destroyed?  Counting destructors for block/func,
 * ASan's shadow (freed memory is poisoned) for free/default/alloc. */
static bool leaf_dead(const leaf_t *l)
{
	switch (l->kind) {
	case K_BLOCK: case K_FUNC: return l->dtor_count > 0;
	case K_FREE: case K_DEFAULT: case K_ALLOC: return l->buf && __asan_address_is_poisoned(l->buf);
	default: return false;
	}
}

/* ------------------------------------------- known buffers (canonical ids) */
typedef struct { const uint8_t *p; size_t n; char *name; } kbuf_t;
static kbuf_t *g_kb; static int g_nkb, g_capkb;   /* sorted by p: library copies in the pool */
static world_t *g_world;                           /* leaves of the current build */

static void kb_add(const uint8_t *p, size_t n, const char *name)
{
	if (g_nkb == g_capkb) { g_capkb = g_capkb ? g_capkb * 2 : 256; g_kb = xrealloc(g_kb, sizeof(kbuf_t) * (size_t)g_capkb); }
	int i = g_nkb++;
	while (i > 0 && g_kb[i - 1].p > p) { g_kb[i] = g_kb[i - 1]; i--; }
	g_kb[i].p = p; g_kb[i].n = n; g_kb[i].name = xstrdup(name);
}
/* identify [p,p+n): returns name into out and offset; known=false for a buffer
 * never seen before (legitimately: a fresh library copy). inside=false when the
 * range starts in a known buffer but runs past its end. */
static void kb_identify(const uint8_t *p, size_t n, char *out, size_t cap, size_t *off, bool *known, bool *inside)
{
	*known = false; *inside = true; *off = 0;
	for (int k = 1; k <= 3 && g_world; k++) {
		const leaf_t *l = &g_world->leaf[k];
		if (l->created && l->buf && p >= l->buf && p < l->buf + l->size) {
			if (out && cap > 2) { out[0] = 'L'; out[1] = (char)('0' + k); out[2] = 0; }
			*off = (size_t)(p - l->buf); *known = true;
			*inside = n <= l->size - *off;
			return;
		}
	}
	int lo = 0, hi = g_nkb;
	while (lo < hi) { int mid = (lo + hi) / 2; if (g_kb[mid].p <= p) lo = mid + 1; else hi = mid; }
	if (lo > 0 && p < g_kb[lo - 1].p + g_kb[lo - 1].n) {
		const kbuf_t *k = &g_kb[lo - 1];
		if (out) snprintf(out, cap, "%s", k->name);
		*off = (size_t)(p - k->p); *known = true;
		*inside = n <= k->n - *off;
		return;
	}
	if (out) out[0] = 0;
}

/* ----------------------------------------------------- apply collector */
#define MAXREG 24
typedef struct { dispatch_data_t region; size_t off; const void *buf; size_t size; } reg_t;
typedef struct {
	int n, calls, stop_at;   /* stop_at = k: the applier returns false on its k-th call (0-based); -1 never */
	reg_t r[MAXREG];
	uint8_t bytes[MAXB];
	size_t total;
	bool trunc, outside, nullreg;
} coll_t;

static bool coll_fn(void *ctx, dispatch_data_t region, size_t off, const void *buf, size_t size)
{
	coll_t *c = ctx;
	int idx = c->calls++;
	if (!region) c->nullreg = true;
	if (c->n < MAXREG) { reg_t *r = &c->r[c->n++]; r->region = region; r->off = off; r->buf = buf; r->size = size; }
	if (size) {
		size_t o; bool known, inside;
		kb_identify(buf, size, NULL, 0, &o, &known, &inside);
		if (known && !inside) c->outside = true;           /* do not read past a known buffer */
		else if (c->total + size <= MAXB) memcpy(c->bytes + c->total, buf, size); /* ASan-checked read */
		else c->trunc = true;
	}
	c->total += size;
	return !(c->stop_at >= 0 && idx >= c->stop_at);
}
static bool collect(dispatch_data_t d, coll_t *c, int stop_at, bool use_f)
{
	memset(c, 0, offsetof(coll_t, r));
	c->total = 0; c->trunc = c->outside = c->nullreg = false;
	c->stop_at = stop_at;
	LC();
	if (use_f) return dispatch_data_apply_f(d, c, coll_fn);
	coll_t *cp = c;
	return dispatch_data_apply(d, ^bool(dispatch_data_t region, size_t off, const void *buf, size_t size) {
		return coll_fn(cp, region, off, buf, size);
	});
}
/* bytes of d as seen through apply == expected?  (light check) */
static bool bytes_equal(dispatch_data_t d, const uint8_t *b, size_t n, coll_t *c)
{
	bool ok = collect(d, c, -1, false);
	return ok && !c->trunc && !c->outside && c->total == n && (n == 0 || !memcmp(c->bytes, b, n));
}
/* the tiling oracle on a finished full traversal */
static bool check_tiling(const char *what, bool ret, const coll_t *c, const mstr *m)
{
	char a[128], b[128];
	if (!ret) { FAIL("apply-returned-false", "%s: full traversal returned false", what); return false; }
	if (c->nullreg) { FAIL("apply-null-region", "%s: NULL region object", what); return false; }
	if (c->outside) { FAIL("apply-region-outside-buffer", "%s: a region extends past the end of its buffer", what); return false; }
	size_t expect = 0;
	for (int i = 0; i < c->n; i++) {
		if (m->n && c->r[i].size == 0) { FAIL("apply-empty-region", "%s: region %d is empty", what, i); return false; }
		if (c->r[i].off != expect) {
			FAIL("apply-offset", "%s: region %d reports offset %zu, expected %zu", what, i, c->r[i].off, expect);
			return false;
		}
		expect += c->r[i].size;
	}
	if (c->total != m->n || c->trunc) {
		FAIL("apply-total", "%s: regions total %zu bytes, model has %zu", what, c->total, m->n);
		return false;
	}
	if (m->n && memcmp(c->bytes, m->b, m->n)) {
		m_fmt(a, sizeof a, c->bytes, m->n); m_fmt(b, sizeof b, m->b, m->n);
		FAIL("apply-bytes", "%s: contents '%s', model '%s'", what, a, b);
		return false;
	}
	return true;
}
static size_t put_uint(char *out, size_t v)
{
	char tmp[24]; int n = 0;
	do { tmp[n++] = (char)('0' + v % 10); v /= 10; } while (v);
	for (int i = 0; i < n; i++) out[i] = tmp[n - 1 - i];
	return (size_t)n;
}
static void canon_from(const coll_t *c, size_t size, char *out, size_t cap, int *nrec)
{
	size_t o = put_uint(out, size);
	out[o++] = ':';
	size_t start = 0;
	for (int i = 0; i < c->n && o + 4 * MAXB + 60 < cap; i++) {
		char nm[4 * MAXB + 8]; size_t off; bool known, inside;
		kb_identify(c->r[i].buf, c->r[i].size, nm, sizeof nm, &off, &known, &inside);
		if (!known) {
			/* a buffer allocated by the library: identified by content */
			nm[0] = 'M';
			m_fmt(nm + 1, sizeof nm - 1, c->bytes + (start < MAXB ? start : 0), c->r[i].size <= MAXB - (start < MAXB ? start : MAXB) ? c->r[i].size : 0);
			off = 0;
		}
		out[o++] = '(';
		for (const char *q = nm; *q; q++) out[o++] = *q;
		out[o++] = ',';
		o += put_uint(out + o, off);
		out[o++] = ',';
		o += put_uint(out + o, c->r[i].size);
		out[o++] = ')';
		start += c->r[i].size;
	}
	out[o] = 0;
	*nrec = c->n;
}

/* ------------------------------------------------------ observer checks */
/* dispatch_data_create_map: size and bytes of the mapping, and the returned
 * object represents that single contiguous region. Returns the map object. */
static dispatch_data_t check_map(dispatch_data_t d, const mstr *m, const void **pout)
{
	const void *p = (const void *)(uintptr_t)1; size_t sz = 0xDEADBEEF;
	uint8_t tmp[MAXB]; char a[128], b[128]; coll_t c;
	LC();
	dispatch_data_t r = dispatch_data_create_map(d, &p, &sz);
	if (pout) *pout = p;
	if (!r) { FAIL("map-null", "create_map returned NULL"); return NULL; }
	if (sz != m->n) { FAIL("map-size", "create_map size %zu, model %zu", sz, m->n); return r; }
	if (m->n) {
		if (!p) { FAIL("map-bytes", "create_map buffer NULL for non-empty data"); return r; }
		memcpy(tmp, p, m->n); /* ASan-checked */
		if (memcmp(tmp, m->b, m->n)) {
			m_fmt(a, sizeof a, tmp, m->n); m_fmt(b, sizeof b, m->b, m->n);
			FAIL("map-bytes", "create_map buffer '%s', model '%s'", a, b);
			return r;
		}
	}
	LC();
	if (dispatch_data_get_size(r) != m->n) { FAIL("map-object-size", "map object size %zu, model %zu", dispatch_data_get_size(r), m->n); return r; }
	bool ret = collect(r, &c, -1, false);
	if (!check_tiling("map object", ret, &c, m)) return r;
	if (m->n && (c.n != 1 || c.r[0].buf != p))
		FAIL("map-object-not-contiguous", "map object has %d regions / first region %p != returned buffer %p", c.n, c.n ? c.r[0].buf : NULL, p);
	return r;
}
/* dispatch_data_copy_region.  For loc < size (documented case): the region
 * contains loc, lies inside the data, is one contiguous region with the model's
 * bytes and coincides with the tile dispatch_data_apply reports for loc.  For
 * loc >= size nothing is documented (header and man page are silent); the code
 * returns dispatch_data_empty with *offset = size.  We only demand what the
 * property implies: no region contains loc, so a valid EMPTY object comes back.
 * Returns the region object; *off,*rs delimit its model (rs = 0 when invalid). */
static dispatch_data_t check_region(dispatch_data_t d, const mstr *m, const coll_t *tiles, size_t loc, size_t *off_out, size_t *rs_out, bool *valid)
{
	size_t off = 0xDEADBEEF; coll_t c; char a[128], b[128];
	*off_out = 0; *rs_out = 0; *valid = false;
	LC();
	dispatch_data_t r = dispatch_data_copy_region(d, loc, &off);
	if (!r) { FAIL("region-null", "copy_region(loc=%zu) returned NULL", loc); return NULL; }
	LC();
	size_t rs = dispatch_data_get_size(r);
	if (loc >= m->n) {
		if (rs != 0) FAIL("region-oob-nonempty", "copy_region(loc=%zu) on %zu bytes returned %zu bytes", loc, m->n, rs);
		else *valid = true;
		return r;
	}
	if (rs == 0 || off > loc || loc - off >= rs) {
		FAIL("region-not-containing-loc", "copy_region(loc=%zu) returned offset %zu size %zu", loc, off, rs);
		return r;
	}
	if (rs > m->n || off > m->n - rs) {
		FAIL("region-exceeds-data", "copy_region(loc=%zu) returned offset %zu size %zu on %zu bytes", loc, off, rs, m->n);
		return r;
	}
	bool ret = collect(r, &c, -1, false);
	if (!ret || c.outside || c.trunc || c.total != rs || memcmp(c.bytes, m->b + off, rs)) {
		m_fmt(a, sizeof a, c.bytes, c.total < MAXB ? c.total : 0); m_fmt(b, sizeof b, m->b + off, rs);
		FAIL("region-bytes", "copy_region(loc=%zu) offset %zu: object holds '%s', model[%zu..%zu) = '%s'", loc, off, a, off, off + rs, b);
		return r;
	}
	if (c.n != 1) { FAIL("region-not-contiguous", "copy_region(loc=%zu) object has %d regions", loc, c.n); return r; }
	for (int i = 0; tiles && i < tiles->n; i++) {
		const reg_t *t = &tiles->r[i];
		if (t->off <= loc && loc - t->off < t->size) {
			if (t->off != off || t->size != rs) {
				FAIL("region-vs-apply-tile", "copy_region(loc=%zu) = [%zu,+%zu) but apply's region containing it is [%zu,+%zu)", loc, off, rs, t->off, t->size);
				return r;
			}
			break;
		}
	}
	*off_out = off; *rs_out = rs; *valid = true;
	return r;
}

static size_t sub_offs(size_t size, size_t *out)
{
	size_t n = 0;
	for (size_t o = 0; o <= size + 1; o++) out[n++] = o;
	out[n++] = SIZE_MAX;
	return n;
}
static size_t sub_lens(size_t size, size_t off, size_t *out)
{
	size_t n = 0;
	for (size_t l = 0; l <= size + 1; l++) out[n++] = l;
	out[n++] = SIZE_MAX;
	size_t v = SIZE_MAX - off;
	bool dup = false;
	for (size_t i = 0; i < n; i++) if (out[i] == v) dup = true;
	if (!dup) out[n++] = v;
	return n;
}
static size_t reg_locs(size_t size, size_t *out)
{
	size_t n = 0;
	for (size_t l = 0; l <= size + 1; l++) out[n++] = l;
	out[n++] = SIZE_MAX;
	return n;
}
#define MAXARGS (MAXB + 4)

/* In-place flattening (SPI dispatch_data_get_flattened_bytes_4libxpc, the other
 * user of _dispatch_data_flatten) on a FRESH object, then every one-step
 * operation on the flattened object against the model.  deep=false: only the
 * returned bytes are compared. */
static void check_flattened(dispatch_data_t d, const mstr *m, bool deep)
{
	uint8_t tmp[MAXB]; coll_t c, c2; char a[128], b[128];
	LC();
	const void *p = dispatch_data_get_flattened_bytes_4libxpc(d);
	if (m->n == 0) return;
	if (!p) { FAIL("flat-null", "get_flattened_bytes returned NULL for %zu bytes", m->n); return; }
	memcpy(tmp, p, m->n);
	if (memcmp(tmp, m->b, m->n)) {
		m_fmt(a, sizeof a, tmp, m->n); m_fmt(b, sizeof b, m->b, m->n);
		FAIL("flat-bytes", "flattened bytes '%s', model '%s'", a, b);
		return;
	}
	if (!deep) return;
	LC();
	if (dispatch_data_get_size(d) != m->n) { FAIL("flat-size", "size changed after flattening"); return; }
	bool ret = collect(d, &c, -1, false);
	if (!check_tiling("flattened object", ret, &c, m)) return;
	dispatch_data_t r = check_map(d, m, NULL);
	if (r) dispatch_release(r);
	size_t args[MAXARGS], lens[MAXARGS];
	size_t nl = reg_locs(m->n, args);
	for (size_t i = 0; i < nl; i++) {
		size_t o, rs; bool valid;
		r = check_region(d, m, &c, args[i], &o, &rs, &valid);
		if (r) dispatch_release(r);
	}
	size_t no = sub_offs(m->n, args);
	for (size_t i = 0; i < no; i++) {
		size_t nn = sub_lens(m->n, args[i], lens);
		for (size_t j = 0; j < nn; j++) {
			mstr ms; m_sub(&ms, m, args[i], lens[j]);
			LC();
			r = dispatch_data_create_subrange(d, args[i], lens[j]);
			if (!r) { FAIL("flat-subrange", "subrange of flattened object returned NULL"); continue; }
			if (dispatch_data_get_size(r) != ms.n || !bytes_equal(r, ms.b, ms.n, &c2)) {
				char so[32], sl[32];
				fmt_sz(so, sizeof so, args[i], 0); fmt_sz(sl, sizeof sl, lens[j], args[i]);
				m_fmt(a, sizeof a, c2.bytes, c2.total < MAXB ? c2.total : 0); m_fmt(b, sizeof b, ms.b, ms.n);
				FAIL("flat-subrange", "subrange(flattened,%s,%s) = '%s', model '%s'", so, sl, a, b);
			}
			dispatch_release(r);
		}
	}
	if (2 * m->n <= MAXB) {
		mstr mm; m_cat(&mm, m, m);
		LC();
		r = dispatch_data_create_concat(d, d);
		if (!r || !bytes_equal(r, mm.b, mm.n, &c2)) FAIL("flat-concat", "concat(flattened,flattened) differs from the model");
		if (r) dispatch_release(r);
	}
}

/* ------------------------------------------------- the oracle on one term */
#define CO_FRESH     1  /* object was created by the last operation (may be flattened) */
#define CO_FLAT_DEEP 2  /* run the deep post-flatten checks */
/* Returns true when every check passed; canon/nrec are filled whenever the
 * full traversal could be made. */
static bool check_object(dispatch_data_t d, const mstr *m, char *canon, size_t ccap, int *nrec, int flags)
{
	int before = g_nfail;
	coll_t c, c2;
	if (canon) canon[0] = 0;
	if (nrec) *nrec = 0;
	if (!d) { FAIL("null-object", "operation returned NULL"); return false; }
	/* 1. size */
	LC();
	size_t sz = dispatch_data_get_size(d);
	if (sz != m->n) {
		char b[128]; m_fmt(b, sizeof b, m->b, m->n);
		FAIL("size", "dispatch_data_get_size = %zu, model '%s' has %zu", sz, b, m->n);
		return false;
	}
	/* 2. apply tiles the byte string */
	bool ret = collect(d, &c, -1, false);
	if (!check_tiling("apply", ret, &c, m)) return false;
	if (canon) canon_from(&c, sz, canon, ccap, nrec);
	for (int k = 0; k < c.n; k++)
		if (c.r[k].region && dispatch_data_get_size(c.r[k].region) != c.r[k].size) { g_info_region_obj_larger++; break; }
	/* 3. early stop: applier returning false at call k stops the traversal */
	for (int k = 0; k < c.n; k++) {
		ret = collect(d, &c2, k, false);
		if (ret || c2.calls != k + 1)
			FAIL("apply-early-stop", "applier returned false at call %d: apply returned %d after %d calls", k, (int)ret, c2.calls);
	}
	/* 4. function variant reports the same regions */
	ret = collect(d, &c2, -1, true);
	if (!ret || c2.n != c.n || c2.total != c.total || memcmp(c2.r, c.r, sizeof(reg_t) * (size_t)c.n))
		FAIL("apply-f-differs", "dispatch_data_apply_f regions differ from dispatch_data_apply");
	/* 5. map (with and without out-pointers); d unaffected by releasing it */
	dispatch_data_t r = check_map(d, m, NULL);
	if (r) dispatch_release(r);
	LC();
	r = dispatch_data_create_map(d, NULL, NULL);
	if (!r) FAIL("map-null", "create_map(NULL,NULL) returned NULL");
	else {
		if (!bytes_equal(r, m->b, m->n, &c2)) FAIL("map-object-bytes", "create_map(d,NULL,NULL) object differs from the model");
		dispatch_release(r);
	}
	/* 6. copy_region at every location */
	size_t locs[MAXARGS];
	size_t nl = reg_locs(m->n, locs);
	for (size_t i = 0; i < nl; i++) {
		size_t o, rs; bool valid;
		r = check_region(d, m, &c, locs[i], &o, &rs, &valid);
		if (r) dispatch_release(r);
	}
	/* 7. still the same bytes after all of the above */
	if (!bytes_equal(d, m->b, m->n, &c2)) FAIL("mutated-by-observers", "bytes changed after map/copy_region/release of derived objects");
	/* 8. flattening, last because it mutates the representation */
	if ((flags & CO_FRESH) && g_nfail == before) check_flattened(d, m, (flags & CO_FLAT_DEEP) != 0);
	return g_nfail == before;
}

/* ---------------------------------------------- reference-count drift aid */
#define MAXRC 8
typedef struct { dispatch_data_t o[MAXRC]; unsigned long c[MAXRC]; const char *nm[MAXRC]; int n; } rcsnap_t;
static void rc_add(rcsnap_t *s, dispatch_data_t o, const char *nm)
{
	if (!o || s->n >= MAXRC) return;
	for (int i = 0; i < s->n; i++) if (s->o[i] == o) return;
	s->o[s->n] = o; s->nm[s->n] = nm; s->c[s->n] = _os_object_retain_count(o); s->n++;
}
static void rc_world(rcsnap_t *s, world_t *w)
{
	static const char *nm[4] = { "E", "L1", "L2", "L3" };
	for (int k = 1; k <= 3; k++) if (w && w->leaf[k].created) rc_add(s, w->leaf[k].obj, nm[k]);
}
static void rc_check(const rcsnap_t *s)
{
	for (int i = 0; i < s->n; i++) {
		unsigned long now = _os_object_retain_count(s->o[i]);
		if (now != s->c[i])
			FAIL("refcount-drift", "retain count of %s went %lu -> %lu across apply-operation/observe/release-result (%s)",
			     s->nm[i], s->c[i], now, now > s->c[i] ? "leak: its destructor can never run" : "over-release: its destructor will run early");
	}
}

/* ------------------------------------------- building a term from scratch */
typedef struct {
	const dag_t *g;
	world_t w;
	dispatch_data_t h[MAXN];   /* one reference per node */
	mstr m[MAXN];
	int built;
} built_t;

/* Apply one operation (library call + op-specific checks); fills the model of
 * the result.  *ok=false when the result cannot be modelled (already reported). */
static dispatch_data_t apply_op(int op, dispatch_data_t A, const mstr *ma, dispatch_data_t B, const mstr *mb,
                                size_t x, size_t y, mstr *mr, bool *ok)
{
	dispatch_data_t r = NULL;
	*ok = true;
	switch (op) {
	case OP_CAT:
		m_cat(mr, ma, mb);
		LC();
		r = dispatch_data_create_concat(A, B);
		break;
	case OP_SUB:
		m_sub(mr, ma, x, y);
		LC();
		r = dispatch_data_create_subrange(A, x, y);
		break;
	case OP_MAP:
		*mr = *ma;
		r = check_map(A, ma, NULL);
		break;
	case OP_REG: {
		coll_t tiles; size_t off, rs; bool valid;
		collect(A, &tiles, -1, false);
		r = check_region(A, ma, &tiles, x, &off, &rs, &valid);
		mr->n = 0;
		if (valid) { memcpy(mr->b, ma->b + off, rs); mr->n = rs; }
		else *ok = false;
		break;
	}
	default: die("bad op");
	}
	if (!r) { if (*ok) FAIL("null-object", "%s returned NULL", OP_NAME[op]); *ok = false; }
	return r;
}

/* Build every node; full=true runs the complete oracle on every node.
 * Returns false (after releasing what was built) if the build had to stop. */
static bool build_dag(built_t *B, const dag_t *g, int cfg, bool full)
{
	B->g = g; B->built = 0;
	world_init(&B->w, cfg);
	g_world = &B->w;
	for (int i = 0; i < g->n; i++) {
		const dnode *d = &g->nd[i];
		bool ok = true;
		rcsnap_t rc = { .n = 0 };
		if (full && i == g->n - 1 && d->op != OP_LEAF) {
			rc_world(&rc, &B->w);
			rc_add(&rc, B->h[d->a], "operand A");
			if (d->op == OP_CAT) rc_add(&rc, B->h[d->b], "operand B");
		}
		if (d->op == OP_LEAF) {
			B->h[i] = world_leaf(&B->w, d->a);
			size_t n = strlen(LEAF_BYTES[d->a]);
			memcpy(B->m[i].b, LEAF_BYTES[d->a], n); B->m[i].n = n;
		} else {
			B->h[i] = apply_op(d->op, B->h[d->a], &B->m[d->a], d->op == OP_CAT ? B->h[d->b] : NULL,
			                   d->op == OP_CAT ? &B->m[d->b] : NULL, d->x, d->y, &B->m[i], &ok);
		}
		if (B->h[i]) B->built = i + 1;
		if (ok) {
			coll_t c;
			bool fresh = d->op != OP_LEAF && B->h[i] != B->h[d->a] && (d->op != OP_CAT || B->h[i] != B->h[d->b]);
			for (int j = 0; j < i && fresh; j++) if (B->h[j] == B->h[i]) fresh = false;
			if (full) {
				char canon[512]; int nrec;
				/* only the root may be flattened in place: inner nodes are operands */
				ok = check_object(B->h[i], &B->m[i], canon, sizeof canon, &nrec, fresh && i == g->n - 1 ? (CO_FRESH | CO_FLAT_DEEP) : 0);
				if (g_verbose) {
					char t[600], bs[128]; dag_t sub = *g; sub.n = i + 1;
					dag_fmt(&sub, t, sizeof t); m_fmt(bs, sizeof bs, B->m[i].b, B->m[i].n);
					printf("  node %d %s -> '%s' canon %s%s\n", i, t, bs, canon, ok ? "" : "  <-- FAILED");
				}
			} else if (!bytes_equal(B->h[i], B->m[i].b, B->m[i].n, &c)) {
				FAIL("build-bytes", "node %d (%s) does not hold the model bytes", i, OP_NAME[d->op]);
				ok = false;
			}
		}
		if (rc.n && B->h[i]) {
			/* root of a functional replay: release it and compare the counts */
			dispatch_release(B->h[i]);
			B->h[i] = NULL;
			rc_check(&rc);
		}
		if (!ok) {
			if (!B->h[i]) B->built = i;
			return false;
		}
	}
	return true;
}
static void built_release_all(built_t *B)
{
	for (int i = 0; i < B->built; i++) if (B->h[i]) dispatch_release(B->h[i]);
	world_drain(&B->w);
	for (int k = 1; k <= 3; k++) {
		leaf_t *l = &B->w.leaf[k];
		if (l->created && l->kind == K_NONE && l->own) free(l->own);
	}
	dispatch_release(B->w.q);
	g_world = NULL;
}
/* functional check of a whole term built from scratch (replay / confirmation) */
static int functional_from_scratch(const dag_t *g, int cfg)
{
	static built_t B;
	int before = g_nfail;
	build_dag(&B, g, cfg, true);
	built_release_all(&B);
	return g_nfail - before;
}

/* ----------------------------------------------------------- lifetime run */
/* Buffers whose lifetime is tracked: the leaves used by the term plus buffers
 * the library allocated for create_map copies (observed via apply). */
#define MAXTB 16
typedef struct { const uint8_t *p; size_t n; int leaf; /* 1..3 or 0 for a library copy */ } tbuf_t;
typedef struct {
	tbuf_t tb[MAXTB]; int ntb;
	uint32_t dep[MAXN];     /* handle -> buffers its regions point into (observed at build) */
} deps_t;

static bool tb_dead(const world_t *w, const tbuf_t *t)
{
	if (t->leaf) return leaf_dead(&w->leaf[t->leaf]);
	return __asan_address_is_poisoned(t->p) != 0;
}
static uint32_t deps_of(deps_t *D, const world_t *w, dispatch_data_t d, bool add_copies)
{
	coll_t c; uint32_t mask = 0;
	(void)w;
	collect(d, &c, -1, false);
	for (int i = 0; i < c.n; i++) {
		const uint8_t *p = c.r[i].buf; int found = -1;
		for (int j = 0; j < D->ntb; j++)
			if (p >= D->tb[j].p && p < D->tb[j].p + D->tb[j].n) found = j;
		if (found < 0 && add_copies && D->ntb < MAXTB) {
			found = D->ntb;
			D->tb[D->ntb++] = (tbuf_t){ p, c.r[i].size, 0 };
		}
		if (found >= 0) mask |= 1u << found;
	}
	return mask;
}

/* One release order on a freshly built term.
 * variant 0: plain; after every release, every still-live handle gets a
 *            dispatch_retain/dispatch_release pair and is re-read.
 * variant 1: the handle released first carries an extra dispatch_retain that is
 *            dropped only after all other handles are gone.
 * variant 2: the region objects handed to the applier of dispatch_data_apply
 *            on the root are retained (as the header tells applications to do),
 *            all handles are released, the region memory must stay readable
 *            until the region objects are released too.
 * After each release the destructor queue is drained and: no tracked buffer may
 * be dead while a live handle (or held region) points into it; live handles
 * still read the model bytes (under ASan).  At the end every block/function
 * destructor ran exactly once, every free/default/alloc buffer is freed, a
 * DESTRUCTOR_NONE buffer is untouched. */
static void run_lifetime(const dag_t *g, int cfg, const int *perm, int variant)
{
	static built_t B;
	deps_t D;
	bool live[MAXN];
	int n = g->n;
	int before = g_nfail;
	struct { dispatch_data_t obj; const uint8_t *p; size_t n; uint8_t bytes[MAXB]; uint32_t dep; } held[MAXREG];
	int nheld = 0;
	coll_t c;

	if (!build_dag(&B, g, cfg, false)) { built_release_all(&B); return; }
	memset(&D, 0, sizeof D);
	for (int k = 1; k <= 3; k++)
		if (B.w.leaf[k].created) D.tb[D.ntb++] = (tbuf_t){ B.w.leaf[k].buf, B.w.leaf[k].size, k };
	for (int i = 0; i < n; i++) { D.dep[i] = deps_of(&D, &B.w, B.h[i], true); live[i] = true; }

	if (variant == 1) dispatch_retain(B.h[perm[0]]);
	if (variant == 2) {
		collect(B.h[n - 1], &c, -1, false);
		size_t pos = 0;
		for (int i = 0; i < c.n && nheld < MAXREG; i++) {
			held[nheld].obj = c.r[i].region;
			held[nheld].p = c.r[i].buf; held[nheld].n = c.r[i].size;
			memcpy(held[nheld].bytes, B.m[n - 1].b + pos, c.r[i].size);
			pos += c.r[i].size;
			held[nheld].dep = 0;
			for (int j = 0; j < D.ntb; j++)
				if (held[nheld].p >= D.tb[j].p && held[nheld].p < D.tb[j].p + D.tb[j].n) held[nheld].dep |= 1u << j;
			dispatch_retain(held[nheld].obj);
			nheld++;
		}
	}
	int steps = n + (variant == 1 ? 1 : 0);
	for (int s = 0; s < steps && g_nfail == before; s++) {
		int x = s < n ? perm[s] : perm[0];
		dispatch_release(B.h[x]);
		if (!(variant == 1 && s == 0)) live[x] = false;
		world_drain(&B.w);
		for (int j = 0; j < D.ntb; j++) {
			if (!tb_dead(&B.w, &D.tb[j])) continue;
			for (int i = 0; i < n; i++)
				if (live[i] && (D.dep[i] & (1u << j))) {
					FAIL("dtor-early", "after release step %d: buffer %s%d destroyed while handle #%d (%s node) still live and pointing into it",
					     s, D.tb[j].leaf ? "L" : "copy", D.tb[j].leaf ? D.tb[j].leaf : j, i, OP_NAME[g->nd[i].op]);
					goto out;
				}
			for (int i = 0; i < nheld; i++)
				if (held[i].dep & (1u << j)) {
					FAIL("dtor-early-held-region", "after release step %d: buffer %s%d destroyed while a retained apply region object points into it",
					     s, D.tb[j].leaf ? "L" : "copy", D.tb[j].leaf ? D.tb[j].leaf : j);
					goto out;
				}
		}
		for (int i = 0; i < n; i++) {
			if (!live[i]) continue;
			dispatch_retain(B.h[i]);
			dispatch_release(B.h[i]);
			if (dispatch_data_get_size(B.h[i]) != B.m[i].n || !bytes_equal(B.h[i], B.m[i].b, B.m[i].n, &c)) {
				FAIL("lifetime-bytes", "after release step %d: live handle #%d no longer reads the model bytes", s, i);
				goto out;
			}
		}
		for (int i = 0; i < nheld; i++) {
			uint8_t tmp[MAXB];
			memcpy(tmp, held[i].p, held[i].n); /* ASan-checked */
			if (memcmp(tmp, held[i].bytes, held[i].n)) { FAIL("lifetime-bytes", "retained region %d changed", i); goto out; }
		}
	}
	for (int i = 0; i < nheld; i++) dispatch_release(held[i].obj);
	nheld = 0;
	world_drain(&B.w);
	if (g_nfail == before) {
		for (int j = 0; j < D.ntb; j++) {
			const tbuf_t *t = &D.tb[j];
			if (!t->leaf) {
				if (!tb_dead(&B.w, t)) FAIL("copy-leaked", "library copy buffer not freed after the last release");
				continue;
			}
			const leaf_t *l = &B.w.leaf[t->leaf];
			switch (l->kind) {
			case K_BLOCK: case K_FUNC:
				if (l->dtor_count != 1)
					FAIL("dtor-count", "leaf L%d (%s): destructor ran %d times after the last release", t->leaf, KIND_NAME[l->kind], l->dtor_count);
				break;
			case K_FREE: case K_DEFAULT: case K_ALLOC:
				if (!leaf_dead(l)) FAIL("leaf-leaked", "leaf L%d (%s): buffer not freed after the last release", t->leaf, KIND_NAME[l->kind]);
				break;
			case K_NONE:
				if (__asan_address_is_poisoned(l->own)) FAIL("none-freed", "leaf L%d: DESTRUCTOR_NONE buffer was freed", t->leaf);
				break;
			}
		}
	}
out:
	/* clean up whatever is still referenced (keeps later runs independent) */
	for (int i = 0; i < nheld; i++) dispatch_release(held[i].obj);
	if (g_nfail != before) {
		/* state unknown after a failure: leak the rest rather than risk a double release */
		world_drain(&B.w);
		g_world = NULL;
		return;
	}
	for (int k = 1; k <= 3; k++) {
		leaf_t *l = &B.w.leaf[k];
		if (l->created && l->kind == K_NONE && l->own) free(l->own);
	}
	dispatch_release(B.w.q);
	g_world = NULL;
}
static void perm_from_index(int n, int idx, int *perm)
{
	int pool[MAXN];
	for (int i = 0; i < n; i++) pool[i] = i;
	int f = 1;
	for (int i = 2; i < n; i++) f *= i; /* (n-1)! */
	for (int i = 0; i < n; i++) {
		int k = idx / f; idx %= f;
		perm[i] = pool[k];
		for (int j = k; j < n - 1 - i; j++) pool[j] = pool[j + 1];
		if (n - 1 - i > 0) f /= (n - 1 - i);
	}
}
static int factorial(int n) { int f = 1; for (int i = 2; i <= n; i++) f *= i; return f; }

/* Edge cases of dispatch_data_create's destructor contract. */
static void lifetime_edges(int cfg)
{
	world_t w; __block int cnt = 0;
	world_init(&w, cfg);
	uint8_t *buf = xmalloc(4);
	/* size 0: returns the empty singleton, destructor still runs (once) */
	dispatch_data_t d = dispatch_data_create(buf, 0, w.q, ^{ cnt++; });
	world_drain(&w);
	if (d != dispatch_data_empty || dispatch_data_get_size(d) != 0) FAIL("create-empty", "create(buf,0) did not return an empty object");
	if (cnt != 1) FAIL("create-empty-dtor", "create(buf,0,q,block): destructor ran %d times", cnt);
	dispatch_release(d);
	world_drain(&w);
	if (cnt != 1) FAIL("create-empty-dtor", "create(buf,0,q,block): destructor ran %d times after release", cnt);
	free(buf);
	dispatch_release(w.q);
}

/* ------------------------------------------------- BFS tables (per master) */
typedef struct { uint8_t op; int ta, tb; size_t x, y; } term_t; /* leaf: ta = leaf id */
typedef struct {
	char *canon; mstr m; int depth, nrec;
	int t2lvl;                /* BFS level at which the second term becomes available (-1: none) */
	int t[2];                 /* up to two different terms reaching this state */
	dispatch_data_t obj[2];   /* ... and their live objects (NULL at the last depth) */
} state_t;
static state_t *S; static int NS, CAPS;
static term_t *TT; static int NT, CAPT;
static int *HT; static int HCAP;              /* canon -> state index */
static int g_cfg;
static world_t g_pool_world;

static int ht_find(const char *canon)
{
	if (!HCAP) return -1;
	uint64_t h = fnv64(canon, strlen(canon), FNV0);
	for (size_t i = h & (size_t)(HCAP - 1);; i = (i + 1) & (size_t)(HCAP - 1)) {
		if (HT[i] < 0) return -1;
		if (!strcmp(S[HT[i]].canon, canon)) return HT[i];
	}
}
static void ht_insert_idx(int idx)
{
	uint64_t h = fnv64(S[idx].canon, strlen(S[idx].canon), FNV0);
	size_t i = h & (size_t)(HCAP - 1);
	while (HT[i] >= 0) i = (i + 1) & (size_t)(HCAP - 1);
	HT[i] = idx;
}
static int state_add(const char *canon, const mstr *m, int depth, int nrec)
{
	if (NS == CAPS) { CAPS = CAPS ? CAPS * 2 : 1024; S = xrealloc(S, sizeof(state_t) * (size_t)CAPS); }
	if ((NS + 1) * 2 > HCAP) {
		HCAP = HCAP ? HCAP * 2 : 4096;
		HT = xrealloc(HT, sizeof(int) * (size_t)HCAP);
		for (int i = 0; i < HCAP; i++) HT[i] = -1;
		for (int i = 0; i < NS; i++) ht_insert_idx(i);
	}
	state_t *s = &S[NS];
	memset(s, 0, sizeof *s);
	s->canon = xstrdup(canon); s->m = *m; s->depth = depth; s->nrec = nrec;
	s->t[0] = s->t[1] = -1; s->t2lvl = -1;
	ht_insert_idx(NS);
	return NS++;
}
static int term_add(int op, int ta, int tb, size_t x, size_t y)
{
	if (NT == CAPT) { CAPT = CAPT ? CAPT * 2 : 1024; TT = xrealloc(TT, sizeof(term_t) * (size_t)CAPT); }
	TT[NT] = (term_t){ (uint8_t)op, ta, tb, x, y };
	return NT++;
}
/* term index -> DAG (shared subterms become one node) */
static int term_dag_rec(int t, dag_t *g, int *seen_t, int *seen_n, int *ns)
{
	for (int i = 0; i < *ns; i++) if (seen_t[i] == t) return seen_n[i];
	const term_t *x = &TT[t];
	dnode d = { x->op, -1, -1, x->x, x->y };
	if (x->op == OP_LEAF) d.a = x->ta;
	else {
		d.a = term_dag_rec(x->ta, g, seen_t, seen_n, ns);
		if (x->op == OP_CAT) d.b = term_dag_rec(x->tb, g, seen_t, seen_n, ns);
		if (d.a < 0 || (x->op == OP_CAT && d.b < 0)) return -1;
	}
	if (g->n >= MAXN - 1 || *ns >= MAXN) return -1;
	g->nd[g->n] = d;
	seen_t[*ns] = t; seen_n[*ns] = g->n; (*ns)++;
	return g->n++;
}
typedef struct { uint8_t op; int sa, sb; size_t x, y; } item_t;
/* operand objects/terms of an item for variant v; false if variant 1 does not exist */
static bool item_operands(const item_t *it, int v, int *ta, int *tb)
{
	const state_t *a = &S[it->sa], *b = it->op == OP_CAT ? &S[it->sb] : NULL;
	if (v == 0) { *ta = a->t[0]; *tb = b ? b->t[0] : -1; return true; }
	if (a->t[1] < 0 && !(b && b->t[1] >= 0)) return false;
	*ta = a->t[1] >= 0 ? a->t[1] : a->t[0];
	*tb = b ? (b->t[1] >= 0 ? b->t[1] : b->t[0]) : -1;
	return true;
}
static dispatch_data_t term_obj(int sidx, int t)
{
	return S[sidx].t[1] == t ? S[sidx].obj[1] : S[sidx].obj[0];
}
static bool item_dag(const item_t *it, int v, dag_t *g)
{
	int ta, tb, seen_t[MAXN], seen_n[MAXN], ns = 0;
	g->n = 0;
	if (!item_operands(it, v, &ta, &tb)) return false;
	dnode d = { it->op, -1, -1, it->x, it->y };
	d.a = term_dag_rec(ta, g, seen_t, seen_n, &ns);
	if (it->op == OP_CAT) d.b = term_dag_rec(tb, g, seen_t, seen_n, &ns);
	if (d.a < 0 || (it->op == OP_CAT && d.b < 0)) return false;
	g->nd[g->n++] = d;
	return true;
}

/* ------------------------------------------------------ item enumeration */
/* Items of BFS level `level` (operands have depth <= level, one has depth ==
 * level) over the first N states, in a fixed order; seq numbers every item.
 * A state whose second term was only found while merging level-1 (t2lvl ==
 * level) is expanded again at this level so that every operation is also
 * applied to that second term (differential check); such results may have a
 * term depth above the bound, they are checked but found no new states unless
 * the merge was wrong. */
typedef void (*item_cb)(uint64_t seq, const item_t *it, void *ctx);
static uint64_t enum_items(int level, int N, int W, int w, uint64_t resume, item_cb cb, void *ctx)
{
	uint64_t seq = 0;
	size_t offs[MAXARGS], lens[MAXARGS];
	item_t it;
#define EMIT() do { if ((int)(seq % (uint64_t)W) == w && seq >= resume && cb) cb(seq, &it, ctx); seq++; } while (0)
	for (int s = 0; s < N; s++) {
		if (S[s].depth != level && S[s].t2lvl != level) continue;
		size_t size = S[s].m.n;
		it.sa = s; it.sb = -1;
		size_t no = sub_offs(size, offs);
		for (size_t i = 0; i < no; i++) {
			size_t nl = sub_lens(size, offs[i], lens);
			for (size_t j = 0; j < nl; j++) { it.op = OP_SUB; it.x = offs[i]; it.y = lens[j]; EMIT(); }
		}
		it.op = OP_MAP; it.x = it.y = 0; EMIT();
		size_t nr = reg_locs(size, offs);
		for (size_t i = 0; i < nr; i++) { it.op = OP_REG; it.x = offs[i]; it.y = 0; EMIT(); }
	}
	/* concat pairs within the byte/record bound; states are bucketed by
	 * (size, records) so that only admissible partners are visited */
	enum { BS = MAXB + 1, BR = MAXREG + 1 };
	static int *bk[2][BS][BR]; static int bkn[2][BS][BR], bkc[2][BS][BR];
	for (int k = 0; k < 2; k++) for (int i = 0; i < BS; i++) for (int j = 0; j < BR; j++) bkn[k][i][j] = 0;
	for (int b = 0; b < N; b++) {
		if (S[b].depth > level) continue;
		size_t sb = S[b].m.n; int nb = S[b].nrec;
		if (sb >= BS || nb >= BR) continue;
		bool lb = S[b].depth == level || S[b].t2lvl == level;
		for (int k = 0; k < 2; k++) {
			if (k == 1 && !lb) continue;
			if (bkn[k][sb][nb] == bkc[k][sb][nb]) {
				bkc[k][sb][nb] = bkc[k][sb][nb] ? bkc[k][sb][nb] * 2 : 64;
				bk[k][sb][nb] = xrealloc(bk[k][sb][nb], sizeof(int) * (size_t)bkc[k][sb][nb]);
			}
			bk[k][sb][nb][bkn[k][sb][nb]++] = b;
		}
	}
	it.op = OP_CAT; it.x = it.y = 0;
	for (int a = 0; a < N; a++) {
		int da = S[a].depth; size_t sza = S[a].m.n; int na = S[a].nrec;
		if (da > level || sza > (size_t)T.maxbytes) continue;
		int k = (da == level || S[a].t2lvl == level) ? 0 : 1; /* partner must be a level state otherwise */
		it.sa = a;
		for (size_t sb = 0; sb + sza <= (size_t)T.maxbytes && sb < BS; sb++)
			for (int nb = 0; nb < BR; nb++) {
				if (sza && sb && na + nb > T.maxrec) continue;
				const int *lst = bk[k][sb][nb]; int cnt = bkn[k][sb][nb];
				for (int i = 0; i < cnt; i++) { it.sb = lst[i]; EMIT(); }
			}
	}
#undef EMIT
	return seq;
}

/* --------------------------------------------------- shared progress page */
typedef struct {
	volatile uint64_t seq; volatile int variant; item_t item; volatile int in_item;
	volatile int perm_idx, lvariant;
	volatile uint64_t ops, evals, libcalls, oob, lruns, lterms, info_region;
	volatile int finished, prologue_done, timed_out;
} prog_t;

/* Shared (MAP_SHARED) open-addressing set of 64-bit hashes, filled concurrently
 * by the workers of the LAST BFS level, whose states are never expanded and so
 * only need to be counted: a state there is identified by the 64-bit FNV hash of
 * its canonical form (collision odds ~ n^2/2^65, irrelevant for a count; no
 * merging decision depends on it - every term is still checked individually). */
typedef struct { volatile uint64_t *slot; uint64_t mask; volatile uint64_t *count; } shset_t;
static shset_t g_sh_canon, g_sh_bytes;
static void shset_create(shset_t *h, int log2cap)
{
	size_t bytes = (sizeof(uint64_t) << log2cap) + 4096;
	void *p = mmap(NULL, bytes, PROT_READ | PROT_WRITE, MAP_SHARED | MAP_ANONYMOUS | MAP_NORESERVE, -1, 0);
	if (p == MAP_FAILED) die("mmap shared set: %s", strerror(errno));
	h->count = p;
	h->slot = (volatile uint64_t *)((char *)p + 4096);
	h->mask = ((uint64_t)1 << log2cap) - 1;
}
static bool shset_insert(shset_t *h, uint64_t v)
{
	if (!h->slot) return false;
	if (!v) v = 1;
	if (*h->count * 10 > h->mask * 7) { h->count[1] = 1; return false; } /* full: flagged, search no longer exhaustive */
	for (uint64_t i = (v * 0x9e3779b97f4a7c15ULL) >> 20 & h->mask;; i = (i + 1) & h->mask) {
		uint64_t cur = h->slot[i];
		if (cur == v) return false;
		if (cur == 0) {
			uint64_t old = __sync_val_compare_and_swap(&h->slot[i], 0, v);
			if (old == 0) { __sync_fetch_and_add(h->count, 1); return true; }
			if (old == v) return false;
		}
	}
}
static uint64_t shset_sum(const shset_t *h)
{
	uint64_t sum = 0;
	if (!h->slot) return 0;
	for (uint64_t i = 0; i <= h->mask; i++) sum += h->slot[i];
	return sum;
}

/* small string -> count map local to a worker */
typedef struct { uint64_t h1, h2; int cnt; } sse_t;
typedef struct { sse_t *e; size_t cap, n; } sset_t;
static int sset_bump(sset_t *ss, const char *s)
{
	if ((ss->n + 1) * 2 > ss->cap) {
		size_t nc = ss->cap ? ss->cap * 2 : 4096;
		sse_t *ne = xmalloc(sizeof(sse_t) * nc);
		memset(ne, 0, sizeof(sse_t) * nc);
		for (size_t i = 0; i < ss->cap; i++) if (ss->e[i].cnt) {
			size_t j = ss->e[i].h1 & (nc - 1);
			while (ne[j].cnt) j = (j + 1) & (nc - 1);
			ne[j] = ss->e[i];
		}
		free(ss->e); ss->e = ne; ss->cap = nc;
	}
	size_t len = strlen(s);
	uint64_t h1 = fnv64(s, len, FNV0), h2 = fnv64(s, len, 0x9e3779b97f4a7c15ULL);
	size_t j = h1 & (ss->cap - 1);
	while (ss->e[j].cnt && !(ss->e[j].h1 == h1 && ss->e[j].h2 == h2)) j = (j + 1) & (ss->cap - 1);
	if (!ss->e[j].cnt) { ss->e[j].h1 = h1; ss->e[j].h2 = h2; ss->n++; }
	return ss->e[j].cnt++;
}

/* ------------------------------------------------------------ BFS worker */
typedef struct { prog_t *P; int fd; bool last; int level; sset_t seen; uint8_t *t2sent; int nsamp[5][2]; uint64_t nitems; } wctx_t;
static const item_t *g_cur_item; static int g_cur_variant;
static void fmt_cur_item(char *out, size_t cap)
{
	dag_t g;
	if (g_cur_item && item_dag(g_cur_item, g_cur_variant, &g)) dag_fmt(&g, out, cap);
	else snprintf(out, cap, "?");
}
static void bfs_item(uint64_t seq, const item_t *it, void *ctx)
{
	wctx_t *wc = ctx; prog_t *P = wc->P;
	char canon[2][512]; char line[1400], ms[128];
	if ((++wc->nitems & 2047) == 0 && now_s() - g_t0 > T.deadline_s) { P->timed_out = 1; P->finished = 1; _exit(0); }
	for (int v = 0; v < 2; v++) {
		int ta, tb, nrec = 0;
		if (!item_operands(it, v, &ta, &tb)) break;
		dispatch_data_t A = term_obj(it->sa, ta), B = it->op == OP_CAT ? term_obj(it->sb, tb) : NULL;
		P->item = *it; P->seq = seq; P->variant = v; P->in_item = 1;
		g_cur_item = it; g_cur_variant = v;
		mstr mr; bool ok;
		uint64_t lc0 = g_libcalls;
		int before = g_nfail;
		rcsnap_t rc = { .n = 0 };
		rc_world(&rc, &g_pool_world);
		rc_add(&rc, A, "operand A");
		rc_add(&rc, B, "operand B");
		dispatch_data_t R = apply_op(it->op, A, &S[it->sa].m, B, B ? &S[it->sb].m : NULL, it->x, it->y, &mr, &ok);
		canon[v][0] = 0;
		if (ok) {
			bool fresh = R != A && R != B;
			/* is this a canonical form nobody has seen: decide after the cheap part */
			ok = check_object(R, &mr, canon[v], sizeof canon[v], &nrec, 0);
			if (ok && v == 1 && canon[0][0] && strcmp(canon[0], canon[1]))
				FAIL("differential", "two terms with the same canonical operand state give different results: %s vs %s", canon[0], canon[1]);
			if (ok && g_nfail == before) {
				bool inb = nrec <= T.maxrec && mr.n <= (size_t)T.maxbytes;
				int idx = ht_find(canon[v]);
				bool emit = false, deep = false;
				if (!inb) P->oob++;
				else if (idx < 0 && wc->last) {
					/* last depth: count the state in the shared set, never pooled */
					deep = shset_insert(&g_sh_canon, fnv64(canon[v], strlen(canon[v]), FNV0));
					emit = deep && wc->nsamp[it->op][nrec >= 2]++ < 1; /* a few written out as samples */
					deep = deep && T.deep_last;
				} else if (idx < 0) {
					int c = sset_bump(&wc->seen, canon[v]);
					emit = c < 3;
					deep = c == 0;
				} else if (!wc->last && S[idx].t[1] < 0 && S[idx].obj[0] && R != S[idx].obj[0] && wc->t2sent[idx] < 2) {
					wc->t2sent[idx]++;
					emit = true;
				}
				if (inb && wc->last) { m_fmt(ms, sizeof ms, mr.b, mr.n); shset_insert(&g_sh_bytes, fnv64(ms, strlen(ms), FNV0)); }
				if (emit && g_nfail == before) {
					m_fmt(ms, sizeof ms, mr.b, mr.n);
					int n = snprintf(line, sizeof line, "S\t%llu\t%d\t%d\t%d\t%d\t%zu\t%zu\t%d\t%s\t=%s\n",
					                 (unsigned long long)seq, v, it->op, it->sa, it->sb, it->x, it->y, nrec, canon[v], ms);
					if (write(wc->fd, line, (size_t)n) != n) die("write: %s", strerror(errno));
				}
				/* last (it rewrites the representation in place); a failure here
				 * does not keep the state out of the pool */
				if (fresh) check_flattened(R, &mr, deep && nrec >= 2);
			}
		}
		if (R) dispatch_release(R);
		rc_check(&rc);
		P->in_item = 0;
		P->ops++; P->evals++;
		P->libcalls += g_libcalls - lc0;
		P->info_region = g_info_region_obj_larger;
	}
	g_cur_item = NULL;
}
static void bfs_worker(int level, int N, int W, int w, uint64_t resume, prog_t *P, int fd, bool last)
{
	wctx_t wc = { P, fd, last, level, { 0 }, NULL, { { 0 } }, 0 };
	wc.t2sent = xmalloc((size_t)N + 1);
	memset(wc.t2sent, 0, (size_t)N + 1);
	g_vfd = fd;
	VC.cfg = g_cfg; VC.mode = "functional"; VC.fmt_term = fmt_cur_item; VC.perm[0] = 0; VC.lvariant = 0;
	g_world = &g_pool_world;
	enum_items(level, N, W, w, resume, bfs_item, &wc);
	P->finished = 1;
	_exit(0);
}

/* -------------------------------------------------------- lifetime worker */
typedef struct { prog_t *P; } lctx_t;
static dag_t g_cur_dag;
static void fmt_cur_dag(char *out, size_t cap) { dag_fmt(&g_cur_dag, out, cap); }
static void life_dag(prog_t *P, const dag_t *g)
{
	if (g->n > T.life_handles) return;
	g_cur_dag = *g;
	int np = factorial(g->n), perm[MAXN];
	P->lterms++;
	for (int pi = 0; pi < np; pi++) {
		perm_from_index(g->n, pi, perm);
		size_t o = 0;
		for (int i = 0; i < g->n; i++) o += (size_t)snprintf(VC.perm + o, sizeof VC.perm - o, "%s%d", i ? "," : "", perm[i]);
		for (int lv = 0; lv < 3; lv++) {
			P->perm_idx = pi; P->lvariant = lv; P->in_item = 1;
			VC.lvariant = lv;
			uint64_t lc0 = g_libcalls;
			run_lifetime(g, g_cfg, perm, lv);
			P->in_item = 0;
			P->lruns++;
			P->libcalls += g_libcalls - lc0;
		}
	}
	VC.perm[0] = 0;
}
static void life_item(uint64_t seq, const item_t *it, void *ctx)
{
	lctx_t *lc = ctx; prog_t *P = lc->P; dag_t g;
	for (int v = 0; v < 2; v++) {
		if (!item_dag(it, v, &g)) continue;
		P->item = *it; P->seq = seq; P->variant = v;
		life_dag(P, &g);
	}
}
static void life_worker(int level, int N, int W, int w, uint64_t resume, prog_t *P, int fd)
{
	lctx_t lc = { P };
	g_vfd = fd;
	VC.cfg = g_cfg; VC.mode = "lifetime"; VC.fmt_term = fmt_cur_dag;
	g_world = NULL;
	if (level == 0 && w == 0 && !P->prologue_done) {
		/* depth-0 terms: the leaves themselves, and the create() edge cases.
		 * (a crash in here is attributed to the leaf; the prologue is not resumed) */
		P->prologue_done = 1;
		for (int k = 0; k <= 3; k++) {
			dag_t g = { 1, { { OP_LEAF, k, -1, 0, 0 } } };
			P->item = (item_t){ OP_LEAF, k, -1, 0, 0 }; P->seq = 0; P->variant = 0;
			life_dag(P, &g);
		}
		g_cur_dag.n = 0;
		lifetime_edges(g_cfg);
	}
	enum_items(level, N, W, w, resume, life_item, &lc);
	P->finished = 1;
	_exit(0);
}

/* ------------------------------------------------- violation aggregation */
typedef struct {
	char *cls, *mode, *term, *perm, *detail; int cfg, lvariant; uint64_t count;
} vrec_t;
static vrec_t *VA; static int NVA, CAPVA;
static bool v_less(const char *t1, const char *p1, int c1, const char *t2, const char *p2, int c2)
{
	size_t l1 = strlen(t1), l2 = strlen(t2);
	if (l1 != l2) return l1 < l2;
	int c = strcmp(t1, t2);
	if (c) return c < 0;
	if (c1 != c2) return c1 < c2;
	return strcmp(p1, p2) < 0;
}
static void vagg_add(const char *cls, int cfg, const char *mode, const char *term, const char *perm, int lvariant,
                     const char *detail, uint64_t count)
{
	for (int i = 0; i < NVA; i++) {
		if (strcmp(VA[i].cls, cls)) continue;
		VA[i].count += count;
		if (v_less(term, perm, cfg, VA[i].term, VA[i].perm, VA[i].cfg)) {
			free(VA[i].mode); free(VA[i].term); free(VA[i].perm); free(VA[i].detail);
			VA[i].mode = xstrdup(mode); VA[i].term = xstrdup(term); VA[i].perm = xstrdup(perm);
			VA[i].detail = xstrdup(detail); VA[i].cfg = cfg; VA[i].lvariant = lvariant;
		}
		return;
	}
	if (NVA == CAPVA) { CAPVA = CAPVA ? CAPVA * 2 : 32; VA = xrealloc(VA, sizeof(vrec_t) * (size_t)CAPVA); }
	VA[NVA++] = (vrec_t){ xstrdup(cls), xstrdup(mode), xstrdup(term), xstrdup(perm), xstrdup(detail), cfg, lvariant, count };
}
/* split a line on tabs in place */
static int split_tabs(char *line, char **f, int maxf)
{
	int n = 0;
	char *p = line;
	while (n < maxf) {
		f[n++] = p;
		char *t = strchr(p, '\t');
		if (!t) break;
		*t = 0; p = t + 1;
	}
	size_t l = strlen(f[n - 1]);
	if (l && f[n - 1][l - 1] == '\n') f[n - 1][l - 1] = 0;
	return n;
}
static void vagg_line(char **f, int nf)
{
	/* V cls cfg mode term perm lvariant detail [count] */
	if (nf < 8) return;
	vagg_add(f[1], atoi(f[2]), f[3], f[4], f[5], atoi(f[6]), f[7], nf > 8 ? strtoull(f[8], NULL, 10) : 1);
}
/* first "AddressSanitizer: <kind>" in a log -> "asan:<kind>" */
static bool asan_class_from_log(const char *path, char *cls, size_t cap, char *summary, size_t scap)
{
	FILE *fp = fopen(path, "r");
	char line[1024];
	bool found = false;
	if (summary && scap) summary[0] = 0;
	if (!fp) return false;
	while (fgets(line, sizeof line, fp)) {
		char *p = strstr(line, "ERROR: AddressSanitizer: ");
		if (p && !found) {
			p += strlen("ERROR: AddressSanitizer: ");
			char kind[96]; size_t o = 0;
			if (!strncmp(p, "attempting ", 11)) p += 11;
			while (*p && *p != ' ' && *p != ':' && *p != '(' && *p != '\n' && o + 1 < sizeof kind) kind[o++] = *p++;
			kind[o] = 0;
			snprintf(cls, cap, "asan:%s", kind);
			found = true;
		}
		p = strstr(line, "SUMMARY: AddressSanitizer: ");
		if (p && summary && !summary[0]) {
			snprintf(summary, scap, "%s", p + 9);
			size_t l = strlen(summary);
			if (l && summary[l - 1] == '\n') summary[l - 1] = 0;
			/* strip addresses / paths that are not stable */
			for (char *c = summary; *c; c++) if (*c == '\t') *c = ' ';
		}
	}
	fclose(fp);
	return found;
}

/* ---------------------------------------------------------------- master */
enum { PH_BFS, PH_LIFE };
typedef struct {
	uint64_t seq; int variant, op, sa, sb; size_t x, y; int nrec; char *canon; mstr m;
} srec_t;
static srec_t *SR; static size_t NSR, CAPSR;
static struct {
	uint64_t ops, evals, libcalls, oob, lruns, lterms, crashes, items, info_region;
	bool exhaustive; int depth_done; int life_depth_done;
	char *samples[16]; int nsamples;
} M;
static int g_W = 3;
static char g_tag[64];

static int srec_cmp(const void *a, const void *b)
{
	const srec_t *x = a, *y = b;
	if (x->seq != y->seq) return x->seq < y->seq ? -1 : 1;
	return x->variant - y->variant;
}
static void parse_model(const char *s, mstr *m)
{
	/* "=abc" ; bytes are always plain letters for our leaves */
	m->n = 0;
	for (s++; *s && m->n < MAXB; s++) m->b[m->n++] = (uint8_t)*s;
}
static void read_results(const char *path, bool want_s)
{
	FILE *fp = fopen(path, "r");
	char line[2048]; char *f[12];
	if (!fp) return;
	while (fgets(line, sizeof line, fp)) {
		int nf = split_tabs(line, f, 12);
		if (f[0][0] == 'V') vagg_line(f, nf);
		else if (f[0][0] == 'S' && want_s && nf >= 11) {
			if (NSR == CAPSR) { CAPSR = CAPSR ? CAPSR * 2 : 4096; SR = xrealloc(SR, sizeof(srec_t) * CAPSR); }
			srec_t *r = &SR[NSR++];
			r->seq = strtoull(f[1], NULL, 10); r->variant = atoi(f[2]); r->op = atoi(f[3]);
			r->sa = atoi(f[4]); r->sb = atoi(f[5]); r->x = strtoull(f[6], NULL, 10); r->y = strtoull(f[7], NULL, 10);
			r->nrec = atoi(f[8]); r->canon = xstrdup(f[9]); parse_model(f[10], &r->m);
		}
	}
	fclose(fp);
}
static dispatch_data_t raw_op(int op, dispatch_data_t A, dispatch_data_t B, size_t x, size_t y)
{
	size_t off;
	switch (op) {
	case OP_CAT: return dispatch_data_create_concat(A, B);
	case OP_SUB: return dispatch_data_create_subrange(A, x, y);
	case OP_MAP: return dispatch_data_create_map(A, NULL, NULL);
	case OP_REG: return dispatch_data_copy_region(A, x, &off);
	}
	return NULL;
}
/* canonical form of a pooled object; registers library-allocated buffers */
static void pool_canon(dispatch_data_t d, char *canon, size_t cap, int *nrec)
{
	coll_t c;
	collect(d, &c, -1, false);
	size_t start = 0;
	for (int i = 0; i < c.n; i++) {
		char nm[MAXB + 8]; size_t off; bool known, inside;
		kb_identify(c.r[i].buf, c.r[i].size, nm, sizeof nm, &off, &known, &inside);
		if (!known && c.r[i].size && start + c.r[i].size <= MAXB) {
			nm[0] = 'M';
			m_fmt(nm + 1, sizeof nm - 1, c.bytes + start, c.r[i].size);
			kb_add(c.r[i].buf, c.r[i].size, nm);
		}
		start += c.r[i].size;
	}
	canon_from(&c, dispatch_data_get_size(d), canon, cap, nrec);
}
static void add_sample(int depth, const item_t *it, int v, const srec_t *r)
{
	static bool have[8][5];
	if (depth >= 8 || have[depth][it->op] || M.nsamples >= 16) return;
	if (it->op == OP_SUB && r->nrec < 2 && depth > 1) return; /* prefer composite subranges */
	have[depth][it->op] = true;
	dag_t g; char t[700], ms[128], buf[1200];
	if (!item_dag(it, v, &g)) return;
	dag_fmt(&g, t, sizeof t);
	m_fmt(ms, sizeof ms, r->m.b, r->m.n);
	snprintf(buf, sizeof buf, "%s -> '%s' records [%s]", t, ms, strchr(r->canon, ':') + 1);
	M.samples[M.nsamples++] = xstrdup(buf);
}
static void merge_level(int level, bool last)
{
	char canon[512]; int nrec;
	qsort(SR, NSR, sizeof(srec_t), srec_cmp);
	for (size_t i = 0; i < NSR; i++) {
		srec_t *r = &SR[i];
		item_t it = { (uint8_t)r->op, r->sa, r->sb, r->x, r->y };
		int ta, tb;
		int idx = ht_find(r->canon);
		if (last) {
			if (g_verbose > 1) fprintf(stderr, "last-level sample candidate: op %d sa %d sb %d canon %s idx %d\n", r->op, r->sa, r->sb, r->canon, idx);
			if (idx < 0) add_sample(level + 1, &it, r->variant, r);
			goto next;
		}
		if (idx >= 0 && (S[idx].t[1] >= 0 || !S[idx].obj[0])) goto next;
		if (!item_operands(&it, r->variant, &ta, &tb)) goto next;
		if (idx < 0) {
			idx = state_add(r->canon, &r->m, level + 1, r->nrec);
			S[idx].t[0] = term_add(r->op, ta, tb, r->x, r->y);
			add_sample(level + 1, &it, r->variant, r);
			dispatch_data_t R = raw_op(r->op, term_obj(r->sa, ta), r->op == OP_CAT ? term_obj(r->sb, tb) : NULL, r->x, r->y);
			if (!R) die("pool rebuild returned NULL");
			pool_canon(R, canon, sizeof canon, &nrec);
			if (strcmp(canon, r->canon)) {
				char t[700]; dag_t g;
				item_dag(&it, r->variant, &g); dag_fmt(&g, t, sizeof t);
				vagg_add("pool-rebuild-mismatch", g_cfg, "functional", t, "-", 0, "re-executing the operation in the pool owner gave a different canonical form", 1);
			}
			S[idx].obj[0] = R;
		} else {
			dispatch_data_t R = raw_op(r->op, term_obj(r->sa, ta), r->op == OP_CAT ? term_obj(r->sb, tb) : NULL, r->x, r->y);
			if (!R) goto next;
			if (R == S[idx].obj[0]) { dispatch_release(R); goto next; }
			pool_canon(R, canon, sizeof canon, &nrec);
			if (strcmp(canon, S[idx].canon)) { dispatch_release(R); goto next; }
			S[idx].t[1] = term_add(r->op, ta, tb, r->x, r->y);
			S[idx].obj[1] = R;
			S[idx].t2lvl = level + 1;
		}
next:
		free(r->canon);
	}
	NSR = 0;
}

static void item_to_dag_any(const item_t *it, int variant, dag_t *g)
{
	if (it->op == OP_LEAF) { g->n = 1; g->nd[0] = (dnode){ OP_LEAF, it->sa, -1, 0, 0 }; }
	else if (!item_dag(it, variant, g)) g->n = 0;
}
/* run one case from scratch in a fresh child; returns its wait status */
static int confirm_run(const dag_t *g, int cfg, const char *mode, const int *perm, int lvariant, const char *logpath, bool verbose)
{
	fflush(NULL);
	pid_t pid = fork();
	if (pid < 0) die("fork: %s", strerror(errno));
	if (pid == 0) {
		int fd = open(logpath, O_WRONLY | O_CREAT | O_TRUNC, 0644);
		if (fd >= 0) { dup2(fd, 2); close(fd); }
		if (!verbose) { int nfd = open("/dev/null", O_WRONLY); if (nfd >= 0) { dup2(nfd, 1); close(nfd); } }
		g_vfd = -1; g_verbose = verbose; g_nfail = 0;
		g_cur_dag = *g;
		VC.cfg = cfg; VC.mode = mode; VC.fmt_term = fmt_cur_dag; VC.perm[0] = 0; VC.lvariant = lvariant;
		if (!strcmp(mode, "lifetime")) {
			size_t o = 0;
			for (int i = 0; i < g->n; i++) o += (size_t)snprintf(VC.perm + o, sizeof VC.perm - o, "%s%d", i ? "," : "", perm[i]);
			run_lifetime(g, cfg, perm, lvariant);
		} else functional_from_scratch(g, cfg);
		fflush(NULL);
		_exit(g_nfail ? 1 : 0);
	}
	int st = 0;
	while (waitpid(pid, &st, 0) < 0 && errno == EINTR) {}
	return st;
}

static pid_t spawn_worker(int phase, int level, int N, bool last, int W, int w, uint64_t resume, prog_t *P,
                          const char *res, const char *logp)
{
	fflush(NULL);
	pid_t pid = fork();
	if (pid < 0) die("fork: %s", strerror(errno));
	if (pid == 0) {
		int lfd = open(logp, O_WRONLY | O_CREAT | O_TRUNC, 0644);
		if (lfd >= 0) { dup2(lfd, 2); close(lfd); }
		int fd = open(res, O_WRONLY | O_CREAT | O_APPEND, 0644);
		if (fd < 0) die("open %s: %s", res, strerror(errno));
		if (phase == PH_BFS) bfs_worker(level, N, W, w, resume, P, fd, last);
		else life_worker(level, N, W, w, resume, P, fd);
		_exit(0);
	}
	return pid;
}
static void run_phase(int phase, int level, int N, bool last)
{
	int W = g_W;
	prog_t *P = mmap(NULL, sizeof(prog_t) * (size_t)W, PROT_READ | PROT_WRITE, MAP_SHARED | MAP_ANONYMOUS, -1, 0);
	if (P == MAP_FAILED) die("mmap: %s", strerror(errno));
	memset(P, 0, sizeof(prog_t) * (size_t)W);
	pid_t pids[64]; int crashes[64]; uint64_t resume[64]; char res[64][160], logp[64][160];
	int running = 0;
	if (phase == PH_BFS) {
		uint64_t ni = enum_items(level, N, 1, 0, 0, NULL, NULL);
		M.items += ni;
		if (g_verbose) {
			fprintf(stderr, "config %d: BFS level %d: %d states, %llu work items, t=%.1fs\n", g_cfg, level, N, (unsigned long long)ni, now_s() - g_t0);
			if (getenv("C13_DRY") && last) return;
		}
	}
	for (int w = 0; w < W; w++) {
		snprintf(res[w], sizeof res[w], TMPDIR "/c13-%s-w%d.res", g_tag, w);
		snprintf(logp[w], sizeof logp[w], TMPDIR "/c13-%s-w%d.log", g_tag, w);
		unlink(res[w]);
		crashes[w] = 0; resume[w] = 0; pids[w] = -1;
	}
	for (int w = 0; w < W; w++) {
		pids[w] = spawn_worker(phase, level, N, last, W, w, resume[w], &P[w], res[w], logp[w]);
		running++;
	}
	while (running > 0) {
		int st; pid_t pid = wait(&st);
		if (pid < 0) { if (errno == EINTR) continue; break; }
		int w = -1;
		for (int i = 0; i < W; i++) if (pids[i] == pid) w = i;
		if (w < 0) continue;
		running--; pids[w] = -1;
		if (WIFEXITED(st) && WEXITSTATUS(st) == 0 && P[w].finished) continue;
		if (WIFEXITED(st) && WEXITSTATUS(st) == 2) die("worker reported a driver error (see %s)", logp[w]);
		/* the worker died while running P[w].item: attribute, confirm, resume after it */
		M.crashes++; crashes[w]++;
		char cls[128], summary[400], detail[700], term[1024], perm_s[32] = "-", clog[200];
		int perm[MAXN];
		dag_t g;
		item_t it = P[w].item;
		item_to_dag_any(&it, P[w].variant, &g);
		dag_fmt(&g, term, sizeof term);
		if (!asan_class_from_log(logp[w], cls, sizeof cls, summary, sizeof summary)) {
			if (WIFSIGNALED(st)) snprintf(cls, sizeof cls, "crash:signal-%d", WTERMSIG(st));
			else snprintf(cls, sizeof cls, "crash:exit-%d", WEXITSTATUS(st));
		}
		if (!P[w].in_item) { snprintf(term, sizeof term, "(between items)"); g.n = 0; }
		snprintf(clog, sizeof clog, TMPDIR "/c13-%s-confirm.log", g_tag);
		int cst = -1;
		if (g.n) {
			if (phase == PH_LIFE) {
				perm_from_index(g.n, P[w].perm_idx, perm);
				size_t o = 0;
				for (int i = 0; i < g.n; i++) o += (size_t)snprintf(perm_s + o, sizeof perm_s - o, "%s%d", i ? "," : "", perm[i]);
			}
			/* a few confirmations are enough: ASan reports are slow to produce */
			if (M.crashes <= 4)
				cst = confirm_run(&g, g_cfg, phase == PH_LIFE ? "lifetime" : "functional", perm, P[w].lvariant, clog, false);
		}
		snprintf(detail, sizeof detail, "worker died (%s); %s; rebuilt from scratch: %s", summary[0] ? summary : cls,
		         phase == PH_LIFE ? "during release-order run" : "while applying/observing this operation",
		         cst < 0 ? "not attempted" : cst == 0 ? "passes (depends on pool history)" : "fails again");
		vagg_add(cls, g_cfg, phase == PH_LIFE ? "lifetime" : "functional", term, perm_s, P[w].lvariant, detail, 1);
		/* keep going after a crash so that other classes are still found, but a
		 * library that crashes everywhere must not eat the time budget */
		if (crashes[w] >= 3 || M.crashes >= 12 || !P[w].in_item) { M.exhaustive = false; continue; }
		resume[w] = it.op == OP_LEAF ? 0 : P[w].seq + 1;
		P[w].in_item = 0;
		pids[w] = spawn_worker(phase, level, N, last, W, w, resume[w], &P[w], res[w], logp[w]);
		running++;
	}
	for (int w = 0; w < W; w++) {
		M.ops += P[w].ops; M.evals += P[w].evals; M.libcalls += P[w].libcalls; M.oob += P[w].oob;
		M.lruns += P[w].lruns; M.lterms += P[w].lterms; if (phase == PH_BFS) M.info_region += P[w].info_region;
		if (P[w].timed_out) M.exhaustive = false;
		read_results(res[w], phase == PH_BFS);
		unlink(res[w]); unlink(logp[w]);
	}
	munmap(P, sizeof(prog_t) * (size_t)W);
}

static void master(int cfg, const char *respath)
{
	char canon[512]; int nrec;
	double t0 = now_s();
	g_cfg = cfg;
	snprintf(g_tag, sizeof g_tag, "%d-c%d", (int)getppid(), cfg);
	M.exhaustive = true;
	if (!(T.full_depth_cfgs >> cfg & 1) && T.maxdepth > 1) T.maxdepth--; /* this process only */
	world_init(&g_pool_world, cfg);
	g_world = &g_pool_world;
	g_vfd = -1; VC.cfg = cfg; VC.mode = "functional";
	for (int k = 0; k <= 3; k++) {
		dispatch_data_t d = world_leaf(&g_pool_world, k);
		mstr m; m.n = strlen(LEAF_BYTES[k]); memcpy(m.b, LEAF_BYTES[k], m.n);
		pool_canon(d, canon, sizeof canon, &nrec);
		int idx = state_add(canon, &m, 0, nrec);
		S[idx].t[0] = term_add(OP_LEAF, k, -1, 0, 0);
		S[idx].obj[0] = d;
	}
	if (NS != 4) die("leaf canonical forms collide");
	for (int level = 0; level < T.maxdepth; level++) {
		if (now_s() - g_t0 > T.deadline_s) { M.exhaustive = false; break; }
		if (level + 1 == T.maxdepth) {
			shset_create(&g_sh_canon, T.log2_states);
			shset_create(&g_sh_bytes, T.log2_states - 2);
		}
		run_phase(PH_BFS, level, NS, level + 1 == T.maxdepth);
		if (g_verbose) fprintf(stderr, "config %d: level %d workers done, %zu candidate records, t=%.1fs\n", cfg, level, NSR, now_s() - g_t0);
		merge_level(level, level + 1 == T.maxdepth);
		if (g_verbose) fprintf(stderr, "config %d: level %d merged, %d states, %d library buffers, t=%.1fs\n", cfg, level, NS, g_nkb, now_s() - g_t0);
		M.depth_done = level + 1;
	}
	for (int level = 0; level < T.life_depth && level < M.depth_done; level++) {
		if (now_s() - g_t0 > T.deadline_s) { M.exhaustive = false; break; }
		run_phase(PH_LIFE, level, NS, false);
		M.life_depth_done = level + 1;
		if (g_verbose) fprintf(stderr, "config %d: lifetime level %d done, %llu runs, t=%.1fs\n", cfg, level, (unsigned long long)M.lruns, now_s() - g_t0);
	}
	/* result file */
	FILE *fp = fopen(respath, "w");
	if (!fp) die("open %s: %s", respath, strerror(errno));
	uint64_t chash = 0, bhash = 0; int per_depth[8] = { 0 };
	uint64_t nbytes = 0, nlast = 0;
	if (!g_sh_bytes.slot) { shset_create(&g_sh_canon, 12); shset_create(&g_sh_bytes, 16); }
	for (int i = 0; i < NS; i++) {
		char ms[128];
		uint64_t h = fnv64(S[i].canon, strlen(S[i].canon), FNV0);
		chash += h ? h : 1;
		m_fmt(ms, sizeof ms, S[i].m.b, S[i].m.n);
		shset_insert(&g_sh_bytes, fnv64(ms, strlen(ms), FNV0));
		if (S[i].depth < 8) per_depth[S[i].depth]++;
	}
	uint64_t phash = chash; /* states below the last depth */
	nlast = *g_sh_canon.count; chash += shset_sum(&g_sh_canon);
	nbytes = *g_sh_bytes.count; bhash = shset_sum(&g_sh_bytes);
	if (g_sh_canon.count[1] || g_sh_bytes.count[1]) M.exhaustive = false;
	if (M.depth_done == T.maxdepth) per_depth[T.maxdepth < 8 ? T.maxdepth : 7] += (int)nlast;
	int twoterm = 0, pooled = 0;
	for (int i = 0; i < NS; i++) { if (S[i].obj[0]) pooled++; if (S[i].obj[1]) twoterm++; }
	fprintf(fp, "STAT\tstates\t%llu\n", (unsigned long long)NS + (unsigned long long)nlast);
	for (int d = 0; d <= T.maxdepth && d < 8; d++) fprintf(fp, "STAT\tstates_d%d\t%d\n", d, per_depth[d]);
	fprintf(fp, "STAT\tpooled\t%d\nSTAT\ttwoterm\t%d\n", pooled, twoterm);
	fprintf(fp, "STAT\ttarget_depth\t%d\nSTAT\tinner_states\t%d\nSTAT\tinner_hash\t%llu\n", T.maxdepth, NS, (unsigned long long)phash);
	fprintf(fp, "STAT\tops\t%llu\nSTAT\tevals\t%llu\nSTAT\tlibcalls\t%llu\nSTAT\toob\t%llu\n", (unsigned long long)M.ops,
	        (unsigned long long)M.evals, (unsigned long long)M.libcalls, (unsigned long long)M.oob);
	fprintf(fp, "STAT\tinfo_region\t%llu\n", (unsigned long long)M.info_region);
	fprintf(fp, "STAT\titems\t%llu\nSTAT\tlruns\t%llu\nSTAT\tlterms\t%llu\nSTAT\tcrashes\t%llu\n", (unsigned long long)M.items,
	        (unsigned long long)M.lruns, (unsigned long long)M.lterms, (unsigned long long)M.crashes);
	fprintf(fp, "STAT\tdepth_done\t%d\nSTAT\tlife_depth_done\t%d\nSTAT\texhaustive\t%d\n", M.depth_done, M.life_depth_done, M.exhaustive ? 1 : 0);
	fprintf(fp, "STAT\tbytestrings\t%llu\nSTAT\tcanonhash\t%llu\nSTAT\tbyteshash\t%llu\n", (unsigned long long)nbytes,
	        (unsigned long long)chash, (unsigned long long)bhash);
	fprintf(fp, "STAT\twall_ms\t%llu\n", (unsigned long long)((now_s() - t0) * 1000));
	for (int i = 0; i < M.nsamples; i++) fprintf(fp, "SAMPLE\t%s\n", M.samples[i]);
	for (int i = 0; i < NVA; i++)
		fprintf(fp, "V\t%s\t%d\t%s\t%s\t%s\t%d\t%s\t%llu\n", VA[i].cls, VA[i].cfg, VA[i].mode, VA[i].term, VA[i].perm,
		        VA[i].lvariant, VA[i].detail, (unsigned long long)VA[i].count);
	fclose(fp);
	_exit(0);
}

/* ------------------------------------------------------------------ JSON */
static void json_str(FILE *fp, const char *s)
{
	fputc('"', fp);
	for (; *s; s++) {
		unsigned char c = (unsigned char)*s;
		if (c == '"' || c == '\\') fprintf(fp, "\\%c", c);
		else if (c < 0x20) fprintf(fp, "\\u%04x", c);
		else fputc(c, fp);
	}
	fputc('"', fp);
}
static void mkdirs(void)
{
	mkdir(OUTDIR, 0755); mkdir(TMPDIR, 0755); mkdir(REPLAYDIR, 0755);
}
/* minimal extraction of "key": value from a JSON text we wrote ourselves */
static bool json_get_str(const char *txt, const char *key, char *out, size_t cap)
{
	char pat[64];
	snprintf(pat, sizeof pat, "\"%s\":", key);
	const char *p = strstr(txt, pat);
	if (!p) return false;
	p += strlen(pat);
	while (*p == ' ') p++;
	if (*p != '"') return false;
	size_t o = 0;
	for (p++; *p && *p != '"' && o + 1 < cap; p++) {
		if (*p == '\\' && p[1]) p++;
		out[o++] = *p;
	}
	out[o] = 0;
	return true;
}
static bool json_get_int(const char *txt, const char *key, long *v)
{
	char pat[64];
	snprintf(pat, sizeof pat, "\"%s\":", key);
	const char *p = strstr(txt, pat);
	if (!p) return false;
	*v = strtol(p + strlen(pat), NULL, 10);
	return true;
}

/* ---------------------------------------------------------------- replay */
static int do_replay(const char *path)
{
	FILE *fp = fopen(path, "r");
	if (!fp) die("cannot open %s", path);
	static char txt[8192];
	size_t n = fread(txt, 1, sizeof txt - 1, fp);
	txt[n] = 0; fclose(fp);
	const char *inp = strstr(txt, "\"input\":");
	if (!inp) die("no input in replay file");
	char term[2048], mode[32], perm_s[64] = ""; long cfg = 0, lv = 0;
	if (!json_get_str(inp, "term", term, sizeof term)) die("no term");
	if (!json_get_str(inp, "mode", mode, sizeof mode)) strcpy(mode, "functional");
	json_get_str(inp, "perm", perm_s, sizeof perm_s);
	json_get_int(inp, "config", &cfg);
	json_get_int(inp, "lvariant", &lv);
	if (cfg < 0 || cfg >= NCONFIG) die("bad config");
	dag_t g; int perm[MAXN];
	if (dag_parse(term, &g)) die("cannot parse term '%s'", term);
	for (int i = 0; i < g.n; i++) perm[i] = i;
	if (!strcmp(mode, "lifetime")) {
		const char *p = perm_s; int k = 0;
		while (*p && k < g.n) { perm[k++] = (int)strtol(p, (char **)&p, 10); if (*p == ',') p++; }
		if (k != g.n) die("perm does not match the %d handles of the term", g.n);
	}
	char logp[200];
	mkdirs();
	snprintf(logp, sizeof logp, TMPDIR "/c13-replay-%d.log", (int)getpid());
	printf("replay %s: config %s (%ld), mode %s, term %s", NAME, CONFIG_NAME[cfg], cfg, mode, term);
	if (!strcmp(mode, "lifetime")) printf(", release order %s, variant %ld", perm_s, lv);
	printf("\n");
	if (!strcmp(mode, "lifetime")) {
		printf("  handles (node order):");
		for (int i = 0; i < g.n; i++) { dag_t sub = g; sub.n = i + 1; char t[600]; dag_fmt(&sub, t, sizeof t); printf(" #%d=%s", i, t); }
		printf("\n");
	}
	int st = confirm_run(&g, (int)cfg, mode, perm, (int)lv, logp, true);
	char cls[128], summary[400];
	bool asan = asan_class_from_log(logp, cls, sizeof cls, summary, sizeof summary);
	if (asan) {
		printf("VIOLATION %s: %s\n", cls, summary);
		FILE *lf = fopen(logp, "r"); char line[512]; int k = 0;
		while (lf && fgets(line, sizeof line, lf) && k++ < 40) fputs(line, stdout);
		if (lf) fclose(lf);
	}
	unlink(logp);
	if (st == 0) { printf("replay: PASS (no violation)\n"); return 0; }
	if (WIFSIGNALED(st)) printf("replay: child killed by signal %d\n", WTERMSIG(st));
	printf("replay: FAIL (still violates)\n");
	return 1;
}

/* ------------------------------------------------------------------ main */
typedef struct {
	uint64_t info_region, states, ops, evals, libcalls, oob, items, lruns, lterms, crashes, bytestrings, canonhash, byteshash, wall_ms, pooled, twoterm;
	uint64_t per_depth[8], inner_states, inner_hash;
	int depth_done, life_depth_done, exhaustive, target_depth; bool ok;
	char *samples[16]; int nsamples;
} cres_t;

static void read_master(const char *path, cres_t *r)
{
	FILE *fp = fopen(path, "r");
	char line[2048]; char *f[12];
	memset(r, 0, sizeof *r);
	if (!fp) return;
	r->ok = true;
	while (fgets(line, sizeof line, fp)) {
		int nf = split_tabs(line, f, 12);
		if (!strcmp(f[0], "STAT") && nf >= 3) {
			uint64_t v = strtoull(f[2], NULL, 10);
#define ST(k, fld) if (!strcmp(f[1], k)) r->fld = v
			ST("states", states); ST("ops", ops); ST("evals", evals); ST("libcalls", libcalls); ST("oob", oob);
			ST("items", items); ST("lruns", lruns); ST("lterms", lterms); ST("crashes", crashes);
			ST("bytestrings", bytestrings); ST("canonhash", canonhash); ST("byteshash", byteshash); ST("wall_ms", wall_ms);
			ST("info_region", info_region); ST("pooled", pooled); ST("twoterm", twoterm); ST("inner_states", inner_states); ST("inner_hash", inner_hash);
			if (!strcmp(f[1], "target_depth")) r->target_depth = (int)v;
			if (!strcmp(f[1], "depth_done")) r->depth_done = (int)v;
			if (!strcmp(f[1], "life_depth_done")) r->life_depth_done = (int)v;
			if (!strcmp(f[1], "exhaustive")) r->exhaustive = (int)v;
			if (!strncmp(f[1], "states_d", 8)) { int d = atoi(f[1] + 8); if (d >= 0 && d < 8) r->per_depth[d] = v; }
#undef ST
		} else if (!strcmp(f[0], "SAMPLE") && nf >= 2 && r->nsamples < 16) r->samples[r->nsamples++] = xstrdup(f[1]);
		else if (f[0][0] == 'V') vagg_line(f, nf);
	}
	fclose(fp);
}
static int vrec_cmp(const void *a, const void *b)
{
	const vrec_t *x = a, *y = b;
	if (v_less(x->term, x->perm, x->cfg, y->term, y->perm, y->cfg)) return -1;
	if (v_less(y->term, y->perm, y->cfg, x->term, x->perm, x->cfg)) return 1;
	return strcmp(x->cls, y->cls);
}

int main(int argc, char **argv)
{
	const char *tier = "quick", *json = NULL, *replay = NULL;
	int only_cfg = -1, opt_depth = -1;
	setvbuf(stdout, NULL, _IOLBF, 0);
	for (int i = 1; i < argc; i++) {
		if (!strcmp(argv[i], "--tier") && i + 1 < argc) tier = argv[++i];
		else if (!strcmp(argv[i], "--json") && i + 1 < argc) json = argv[++i];
		else if (!strcmp(argv[i], "--replay") && i + 1 < argc) replay = argv[++i];
		else if (!strcmp(argv[i], "--config") && i + 1 < argc) only_cfg = atoi(argv[++i]);
		else if (!strcmp(argv[i], "--workers") && i + 1 < argc) g_workers_total = atoi(argv[++i]);
		else if (!strcmp(argv[i], "--depth") && i + 1 < argc) opt_depth = atoi(argv[++i]);
		else if (!strcmp(argv[i], "--verbose")) g_verbose++;
		else die("usage: %s --tier quick|thorough --json <file> | --replay <file>", argv[0]);
	}
	g_t0 = now_s();
	if (replay) return do_replay(replay);
	T = TIERS[0];
	bool found = false;
	for (size_t i = 0; i < sizeof TIERS / sizeof TIERS[0]; i++) if (!strcmp(TIERS[i].name, tier)) { T = TIERS[i]; found = true; }
	if (!found) die("unknown tier %s", tier);
	if (opt_depth > 0) { T.maxdepth = opt_depth; if (T.life_depth > opt_depth) T.life_depth = opt_depth; }
	mkdirs();
	char defjson[200];
	if (!json) { snprintf(defjson, sizeof defjson, OUTDIR "/" NAME "-%s.json", T.name); json = defjson; }

	int ncfg = only_cfg >= 0 ? 1 : NCONFIG;
	long ncpu = sysconf(_SC_NPROCESSORS_ONLN);
	if (g_workers_total > ncpu && ncpu > 0) g_workers_total = (int)ncpu;
	g_W = T.sequential ? g_workers_total : g_workers_total / ncfg;
	if (g_W < 1) g_W = 1;
	if (g_W > 60) g_W = 60;
	pid_t mp[NCONFIG]; char resp[NCONFIG][160], mlog[NCONFIG][160]; int cfgs[NCONFIG];
	cres_t R[NCONFIG]; bool driver_error = false;
	for (int i = 0; i < ncfg; i++) {
		cfgs[i] = only_cfg >= 0 ? only_cfg : i;
		if (cfgs[i] < 0 || cfgs[i] >= NCONFIG) die("bad --config");
		mp[i] = -1;
	}
	for (int round = 0; round < 2; round++) {
		/* round 0 launches (and, when sequential, also reaps); round 1 reaps */
		for (int i = 0; i < ncfg; i++) {
			if (round == 0) {
				snprintf(resp[i], sizeof resp[i], TMPDIR "/c13-%d-master%d.res", (int)getpid(), cfgs[i]);
				snprintf(mlog[i], sizeof mlog[i], TMPDIR "/c13-%d-master%d.log", (int)getpid(), cfgs[i]);
				unlink(resp[i]);
				fflush(NULL);
				mp[i] = fork();
				if (mp[i] < 0) die("fork: %s", strerror(errno));
				if (mp[i] == 0) {
					int lfd = open(mlog[i], O_WRONLY | O_CREAT | O_TRUNC, 0644);
					if (lfd >= 0 && !g_verbose) dup2(lfd, 2);
					if (lfd >= 0) close(lfd);
					master(cfgs[i], resp[i]);
					_exit(0);
				}
				if (!T.sequential) continue;
			} else if (T.sequential) continue;
			int st = 0;
			while (waitpid(mp[i], &st, 0) < 0 && errno == EINTR) {}
			read_master(resp[i], &R[i]);
			if (!(WIFEXITED(st) && WEXITSTATUS(st) == 0) || !R[i].ok) {
				char cls[128], summary[400], detail[600];
				if (asan_class_from_log(mlog[i], cls, sizeof cls, summary, sizeof summary)) {
					snprintf(detail, sizeof detail, "pool owner process died: %s", summary);
					vagg_add(cls, cfgs[i], "functional", "(pool construction)", "-", 0, detail, 1);
				} else {
					fprintf(stderr, NAME ": master for config %d failed (status 0x%x), log %s\n", cfgs[i], st, mlog[i]);
					driver_error = true;
				}
				R[i].exhaustive = 0;
			} else unlink(mlog[i]);
			unlink(resp[i]);
		}
	}
	/* the algebra must not depend on how the leaves were created: configurations
	 * searched to the same depth must reach the same canonical states (compared
	 * by count and by an order-independent hash of the canonical forms); one
	 * searched a level deeper must agree on all but its last level */
	for (int i = 1; i < ncfg; i++) {
		if (!(R[i].ok && R[0].ok && R[i].exhaustive && R[0].exhaustive)) continue;
		bool differ = false;
		if (R[i].depth_done == R[0].depth_done)
			differ = R[i].states != R[0].states || R[i].canonhash != R[0].canonhash || R[i].byteshash != R[0].byteshash;
		else if (R[i].depth_done == R[0].depth_done + 1)
			differ = R[i].inner_states != R[0].states || R[i].inner_hash != R[0].canonhash;
		else if (R[i].depth_done + 1 == R[0].depth_done)
			differ = R[0].inner_states != R[i].states || R[0].inner_hash != R[i].canonhash;
		if (differ) {
			char d[300];
			snprintf(d, sizeof d, "config %s reaches %llu canonical states to depth %d, config %s reaches %llu to depth %d (or different sets)",
			         CONFIG_NAME[cfgs[0]], (unsigned long long)R[0].states, R[0].depth_done, CONFIG_NAME[cfgs[i]],
			         (unsigned long long)R[i].states, R[i].depth_done);
			vagg_add("state-space-depends-on-leaf-kind", cfgs[i], "functional", "(whole search)", "-", 0, d, 1);
		}
	}
	cres_t A; memset(&A, 0, sizeof A);
	A.exhaustive = 1; A.depth_done = 0; A.life_depth_done = 99;
	int deep_i = 0; char depths[128] = ""; size_t dpo = 0;
	for (int i = 0; i < ncfg; i++) {
		A.states += R[i].states; A.ops += R[i].ops; A.evals += R[i].evals; A.libcalls += R[i].libcalls; A.oob += R[i].oob;
		A.items += R[i].items; A.lruns += R[i].lruns; A.lterms += R[i].lterms; A.crashes += R[i].crashes;
		A.pooled += R[i].pooled; A.twoterm += R[i].twoterm; A.info_region += R[i].info_region;
		if (!R[i].exhaustive) A.exhaustive = 0;
		if (R[i].depth_done > A.depth_done) { A.depth_done = R[i].depth_done; deep_i = i; }
		if (R[i].depth_done < R[i].target_depth || !R[i].ok) A.exhaustive = 0;
		dpo += (size_t)snprintf(depths + dpo, sizeof depths - dpo, "%s%s:%d", i ? ", " : "", CONFIG_NAME[cfgs[i]], R[i].depth_done);
		if (R[i].life_depth_done < A.life_depth_done) A.life_depth_done = R[i].life_depth_done;
	}
	if (A.life_depth_done < T.life_depth) A.exhaustive = 0;
	double wall = now_s() - g_t0;

	/* violations: one entry per class, minimal input first */
	qsort(VA, (size_t)NVA, sizeof(vrec_t), vrec_cmp);
	FILE *fp = fopen(json, "w");
	if (!fp) die("cannot write %s", json);
	char bound[700];
	snprintf(bound, sizeof bound,
	         "%d leaf-kind configs x BFS over all terms of E,L1='a',L2='bc',L3='def' under cat/sub/map/reg to operation depth {%s}, "
	         "objects <=%d records and <=%d bytes, sub off in {0..size+1,MAX} x len in {0..size+1,MAX,MAX-off}, reg loc in {0..size+1,MAX}, "
	         "each op applied to up to 2 distinct terms per canonical state; lifetime: every op application of depth <=%d with <=%d handles x all release orders x 3 variants",
	         ncfg, depths, T.maxrec, T.maxbytes, A.life_depth_done, T.life_handles);
	fprintf(fp, "{\"name\": \"" NAME "\", \"property\": \"" PROP "\", \"tier\": \"%s\",\n \"bound\": ", T.name);
	json_str(fp, bound);
	fprintf(fp, ",\n \"states\": %llu, \"transitions\": %llu, \"evaluations\": %llu, \"distinct_outcomes\": %llu,\n",
	        (unsigned long long)A.states, (unsigned long long)(A.libcalls), (unsigned long long)(A.evals + A.lruns),
	        (unsigned long long)R[deep_i].bytestrings);
	fprintf(fp, " \"traces_validated_against_impl\": %llu, \"exhaustive\": %s, \"max_depth\": %d,\n",
	        (unsigned long long)(A.evals + A.lruns), A.exhaustive ? "true" : "false", A.depth_done);
	fprintf(fp, " \"detail\": {\"configs\": %d, \"states_deepest_config\": %llu, \"states_by_depth_deepest_config\": [", ncfg, (unsigned long long)R[deep_i].states);
	for (int d = 0; d <= T.maxdepth && d < 8; d++) fprintf(fp, "%s%llu", d ? ", " : "", (unsigned long long)R[deep_i].per_depth[d]);
	fprintf(fp, "], \"pooled_states\": %llu, \"states_with_two_terms\": %llu, \"work_items\": %llu, \"ops_applied\": %llu, "
	        "\"terms_checked\": %llu, \"library_calls_incl_oracle\": %llu, \"results_outside_bound\": %llu, "
	        "\"lifetime_terms\": %llu, \"lifetime_runs\": %llu, \"worker_crashes\": %llu, \"distinct_byte_strings\": %llu, "
	        "\"info_terms_whose_apply_region_object_is_larger_than_the_region\": %llu},\n",
	        (unsigned long long)A.pooled, (unsigned long long)A.twoterm, (unsigned long long)A.items, (unsigned long long)A.ops,
	        (unsigned long long)A.evals, (unsigned long long)A.libcalls, (unsigned long long)A.oob, (unsigned long long)A.lterms,
	        (unsigned long long)A.lruns, (unsigned long long)A.crashes, (unsigned long long)R[deep_i].bytestrings,
	        (unsigned long long)A.info_region);
	fprintf(fp, " \"samples\": [");
	int ns = 0;
	/* spread over depths: take from the end (deepest) and the start */
	for (int i = 0; i < R[deep_i].nsamples && ns < 5; i++) {
		int k = (i % 2) ? R[deep_i].nsamples - 1 - i / 2 : i / 2;
		if (k < 0 || k >= R[deep_i].nsamples || !R[deep_i].samples[k]) continue;
		fprintf(fp, "%s{\"case\": ", ns ? ", " : ""); json_str(fp, R[deep_i].samples[k]); fprintf(fp, "}");
		R[deep_i].samples[k] = NULL; ns++;
	}
	fprintf(fp, "],\n \"violations_list\": [");
	int nout = 0;
	for (int i = 0; i < NVA && nout < 20; i++) {
		vrec_t *v = &VA[i];
		char rp[256], sig[1400];
		snprintf(rp, sizeof rp, REPLAYDIR "/" PROP "-" NAME "-%d.json", nout);
		FILE *rf = fopen(rp, "w");
		if (rf) {
			fprintf(rf, "{\"engine\": \"seqx\", \"replay_cmd\": [\"/verif/build/seqx/" NAME "\", \"--replay\", \"{replay}\"],\n \"input\": {\"class\": ");
			json_str(rf, v->cls);
			fprintf(rf, ", \"config\": %d, \"config_name\": ", v->cfg); json_str(rf, CONFIG_NAME[v->cfg]);
			fprintf(rf, ", \"mode\": "); json_str(rf, v->mode);
			fprintf(rf, ", \"term\": "); json_str(rf, v->term);
			fprintf(rf, ", \"perm\": "); json_str(rf, strcmp(v->perm, "-") ? v->perm : "");
			fprintf(rf, ", \"lvariant\": %d, \"detail\": ", v->lvariant); json_str(rf, v->detail);
			fprintf(rf, "}}\n");
			fclose(rf);
		}
		if (!strcmp(v->mode, "lifetime"))
			snprintf(sig, sizeof sig, "%s: %s release-order %s variant %d [leaves %s]", v->cls, v->term, v->perm, v->lvariant, CONFIG_NAME[v->cfg]);
		else snprintf(sig, sizeof sig, "%s: %s [leaves %s]", v->cls, v->term, CONFIG_NAME[v->cfg]);
		fprintf(fp, "%s\n  {\"signature\": ", nout ? "," : ""); json_str(fp, sig);
		fprintf(fp, ", \"replay\": "); json_str(fp, rp);
		fprintf(fp, ", \"count\": %llu, \"detail\": ", (unsigned long long)v->count); json_str(fp, v->detail);
		fprintf(fp, "}");
		nout++;
	}
	fprintf(fp, "],\n \"violation_classes\": %d, \"wall_s\": %.2f}\n", NVA, wall);
	fclose(fp);
	printf(NAME " %s: %llu canonical states (%llu in the deepest of %d configs), %llu ops applied, %llu library calls, %llu lifetime runs, "
	       "depth %d, exhaustive=%s, %d violation class(es), %.1f s\n", T.name, (unsigned long long)A.states,
	       (unsigned long long)R[deep_i].states, ncfg, (unsigned long long)A.ops, (unsigned long long)A.libcalls,
	       (unsigned long long)A.lruns, A.depth_done, A.exhaustive ? "true" : "false", NVA, wall);
	for (int i = 0; i < NVA && i < 20; i++)
		printf("  VIOLATION %s: %s%s%s [leaves %s] x%llu -- %s\n", VA[i].cls, VA[i].term, strcmp(VA[i].perm, "-") ? " order " : "",
		       strcmp(VA[i].perm, "-") ? VA[i].perm : "", CONFIG_NAME[VA[i].cfg], (unsigned long long)VA[i].count, VA[i].detail);
	if (driver_error) return 2;
	return NVA ? 1 : 0;
}
