// qprog.c — interpreter and oracles for the queue-program DSL (see qprog.h)
#include "qprog.h"
#include <ctype.h>
#include <dispatch/private.h>
#include <Block.h>

static dispatch_queue_t Q[QP_MAXQ];
static dispatch_group_t g_group;
static dispatch_semaphore_t g_xsem;   // 'x' items block on it, the 'y' item releases them
static int g_nx;
static const qprog *g_p;
static int g_items_expected, g_items_ended, g_gate_open, g_threads_done;
static int g_ended[8192];

int qp_item_id(int thread, int opidx) { return thread * 16 + opidx + 1; }

static int is_custom(char k) { return k == 'S' || k == 'C' || k == 'N' || k == 'W' || k == 'I'; }
static int is_serial_kind(char k) { return k == 'S' || k == 'I' || k == 'W' || k == 'M'; }
static int op_is_sync(char o) { return o == 's' || o == 'h' || o == 'B' || o == 'w' || o == 'A' || o == '3'; }
static int op_is_barrier(char o) { return o == 'b' || o == 'B' || o == 'k'; }
static int op_is_item(char o) { return o != 'U' && o != 'R' && o != 'z'; }   /* 'r' is an item */
static int op_iters(char o) { return o == 'A' ? 2 : o == '3' ? 3 : 0; }

int qp_parse(const char *text, qprog *p)
{
	memset(p, 0, sizeof *p);
	p->text = text;
	const char *s = text;
	for (;;) {
		while (*s == ' ') s++;
		if (!strncmp(s, "gate;", 5)) { p->gate = 1; s += 5; continue; }
		if (!strncmp(s, "cold;", 5)) { p->cold = 1; s += 5; continue; }
		if (!strncmp(s, "slow;", 5)) { p->slow = 1; s += 5; continue; }
		if (!strncmp(s, "hold;", 5)) { p->hold = 1; s += 5; continue; }
		break;
	}
	// queues
	while (*s && *s != '|') {
		while (*s == ' ') s++;
		if (*s == '|' || !*s) break;
		if (p->nq >= QP_MAXQ) return -1;
		qp_qdef *q = &p->q[p->nq];
		q->kind = *s++; q->target = -1;
		if (!isdigit((unsigned char)*s) || (*s - '0') != p->nq) return -1;
		s++;
		if (*s == '>') { s++; if (!isdigit((unsigned char)*s)) return -1; q->target = *s++ - '0'; if (q->target >= p->nq) return -1; }
		p->nq++;
	}
	while (*s == '|') {
		s++;
		if (p->nthr >= QP_MAXT) return -1;
		int t = p->nthr++;
		for (;;) {
			while (*s == ' ') s++;
			if (!*s || *s == '|') break;
			if (p->nops[t] >= QP_MAXOPS) return -1;
			qp_op *o = &p->ops[t][p->nops[t]++];
			o->op = *s++;
			if (!isdigit((unsigned char)*s)) return -1;
			o->q = *s++ - '0';
			if (o->q >= p->nq) return -1;
			if (p->gate && op_is_sync(o->op)) return -1;
		}
	}
	return p->nthr ? 0 : -1;
}

static int g_subs_done[QP_MAXT];
static int others_submitted(void *tp)
{
	int t = (int)(intptr_t)tp;
	for (int u = 0; u < g_p->nthr; u++) if (u != t && !g_subs_done[u]) return 0;
	return 1;
}
static void body(int id)
{
	int t = (id % 1000 - 1) / 16, k = (id % 1000 - 1) % 16;
	if (id < 1000 && k < g_p->nops[t] && (g_p->ops[t][k].op == 'h' ||
	    (g_p->hold && t == 0 && op_is_sync(g_p->ops[t][k].op) && g_p->ops[t][k].op != 'A' && g_p->ops[t][k].op != '3'))) {
		// the synchronously executed item stays in flight until every other client thread has returned from all of its
		// submissions: the overlap "reader inside, barrier arriving" costs no preemption
		vx_ev(EV_START, id, 0);
		// 'h': released at quiescence instead (another thread's sync item may be queued behind a barrier that waits for this one)
		if (g_p->ops[t][k].op == 'h') { if (!others_submitted((void *)(intptr_t)t)) vx_wait_idle(); }
		else vx_wait_until(others_submitted, (void *)(intptr_t)t);
		vx_point();
		vx_ev(EV_END, id, 0);
		g_ended[id] = 1; g_items_ended++;
		return;
	}
	if (g_p->gate && !g_gate_open) {
		int *a[2] = { &g_gate_open, (int *)(intptr_t)1 };
		vx_wait_until(pred_int_ge, a);
	}
	if (g_p->slow) { vx_ev(EV_START, id, 0); vx_sleep_ns(1 * MS); vx_ev(EV_END, id, 0); }
	else item_body(id);
	g_ended[id] = 1;
	g_items_ended++;
}
static void item_fn(void *ctx) { body((int)(intptr_t)ctx); }
static void xitem_fn(void *ctx)
{
	int id = (int)(intptr_t)ctx;
	vx_ev(EV_START, id, 0);
	dispatch_semaphore_wait(g_xsem, DISPATCH_TIME_FOREVER);   // every pool thread may end up parked here
	vx_ev(EV_END, id, 0);
	g_ended[id] = 1; g_items_ended++;
}
static void yitem_fn(void *ctx)
{
	int id = (int)(intptr_t)ctx;
	vx_ev(EV_START, id, 0);
	for (int i = 0; i < g_nx; i++) dispatch_semaphore_signal(g_xsem);
	vx_ev(EV_END, id, 0);
	g_ended[id] = 1; g_items_ended++;
}
static void ritem_fn(void *ctx)
{
	// an item that suspends and resumes its OWN queue from inside its body: it must keep the queue to itself until it returns
	int id = (int)(intptr_t)ctx;
	int t = (id - 1) / 16, k = (id - 1) % 16;
	dispatch_queue_t q = Q[g_p->ops[t][k].q];
	vx_ev(EV_START, id, 0);
	dispatch_suspend(q);
	dispatch_resume(q);
	vx_point();
	if (g_p->slow) vx_sleep_ns(1 * MS);
	vx_ev(EV_END, id, 0);
	g_ended[id] = 1; g_items_ended++;
}
static void apply_fn(void *ctx, size_t i) { body((int)(intptr_t)ctx + 1000 * ((int)i + 1)); }
static void warm_fn(void *ctx) { *(int *)ctx = 1; }

static void do_ops(int t)
{
	for (int k = 0; k < g_p->nops[t]; k++) {
		const qp_op *o = &g_p->ops[t][k];
		int id = qp_item_id(t, k);
		void *ctx = (void *)(intptr_t)id;
		dispatch_queue_t q = Q[o->q];
		vx_ev(EV_CALL, id, o->op);
		switch (o->op) {
		case 'a': case 'p': dispatch_async_f(q, ctx, item_fn); break;
		case 'x': dispatch_async_f(q, ctx, xitem_fn); break;
		case 'r': dispatch_async_f(q, ctx, ritem_fn); break;
		case 'y': dispatch_async_f(q, ctx, yitem_fn); break;
		case 'b': dispatch_barrier_async_f(q, ctx, item_fn); break;
		case 'g': dispatch_group_async_f(g_group, q, ctx, item_fn); break;
		case 's': case 'h': dispatch_sync_f(q, ctx, item_fn); break;
		case 'B': dispatch_barrier_sync_f(q, ctx, item_fn); break;
		case 'w': dispatch_async_and_wait_f(q, ctx, item_fn); break;
		case 'A': dispatch_apply_f(2, q, ctx, apply_fn); break;
		case '3': dispatch_apply_f(3, q, ctx, apply_fn); break;
		case 'k': {
			dispatch_block_t b = dispatch_block_create(DISPATCH_BLOCK_BARRIER, ^{ body(id); });
			dispatch_async(q, b);
			Block_release(b);
			break; }
		case 'z': vx_sleep_ns(1 * MS); break;     // the client pauses for 1 virtual ms
		case 'U': dispatch_suspend(q); break;
		case 'R': dispatch_resume(q); break;
		default: vx_fail("bad op %c", o->op);
		}
		vx_ev(EV_RET, id, 0);
		if (o->op == 'p') {
			int *a[2] = { &g_ended[id], (int *)(intptr_t)1 };
			vx_wait_until(pred_int_ge, a);
		}
	}
}

static void client(void *arg)
{
	do_ops((int)(intptr_t)arg);
	g_subs_done[(int)(intptr_t)arg] = 1;
	g_threads_done++;
}

static void warm(dispatch_queue_t q)
{
	int done = 0;
	dispatch_async_f(q, &done, warm_fn);
	int *a[2] = { &done, (int *)(intptr_t)1 };
	vx_wait_until(pred_int_ge, a);
}

void qp_run(const qprog *p)
{
	g_p = p;
	g_items_expected = g_items_ended = g_gate_open = g_threads_done = 0;
	memset(g_ended, 0, sizeof g_ended); memset(g_subs_done, 0, sizeof g_subs_done);
	vx_set_horizon(12ull * 1000000000ull);
	for (int t = 0; t < p->nthr; t++) for (int k = 0; k < p->nops[t]; k++) {
		char o = p->ops[t][k].op;
		if (op_is_item(o)) g_items_expected += op_iters(o) ? op_iters(o) : 1;
	}
	g_group = dispatch_group_create();
	g_xsem = dispatch_semaphore_create(0); g_nx = 0;
	for (int t = 0; t < p->nthr; t++) for (int k = 0; k < p->nops[t]; k++) if (p->ops[t][k].op == 'x') g_nx++;
	for (int i = 0; i < p->nq; i++) {
		const qp_qdef *d = &p->q[i];
		dispatch_queue_t tq = d->target >= 0 ? Q[d->target] : NULL;
		char label[32]; snprintf(label, sizeof label, "vx.q%d", i);
		switch (d->kind) {
		case 'S': Q[i] = dispatch_queue_create_with_target(label, DISPATCH_QUEUE_SERIAL, tq); break;
		case 'C': Q[i] = dispatch_queue_create_with_target(label, DISPATCH_QUEUE_CONCURRENT, tq); break;
		case 'N': Q[i] = dispatch_queue_create_with_target(label, DISPATCH_QUEUE_CONCURRENT, tq);
			dispatch_queue_set_width(Q[i], 2); break;
		case 'W': Q[i] = (dispatch_queue_t)dispatch_workloop_create(label); break;
		case 'G': Q[i] = dispatch_get_global_queue(DISPATCH_QUEUE_PRIORITY_DEFAULT, 0); break;
		case 'M': Q[i] = dispatch_get_main_queue(); break;
		case 'I': {
			// initially inactive, retargeted twice before activation: only the last target counts
			Q[i] = dispatch_queue_create(label, dispatch_queue_attr_make_initially_inactive(DISPATCH_QUEUE_SERIAL));
			dispatch_queue_t decoy = dispatch_queue_create("vx.decoy", DISPATCH_QUEUE_CONCURRENT);
			dispatch_set_target_queue(Q[i], decoy);
			if (tq) dispatch_set_target_queue(Q[i], tq);
			else dispatch_set_target_queue(Q[i], dispatch_get_global_queue(0, 0));
			dispatch_activate(Q[i]);
			break; }
		default: vx_fail("bad queue kind %c", d->kind);
		}
	}
	if (!p->cold) {
		for (int i = 0; i < p->nq; i++) if (p->q[i].kind != 'M') warm(Q[i]);
	}
	int th[QP_MAXT];
	vx_focus_begin();
	for (int t = 1; t < p->nthr; t++) th[t] = vx_thread(client, (void *)(intptr_t)t);
	client((void *)0);
	for (int t = 1; t < p->nthr; t++) vx_join(th[t]);
	if (p->gate) g_gate_open = 1;
	int *a[2] = { &g_items_ended, (int *)(intptr_t)g_items_expected };
	vx_wait_until(pred_int_ge, a);
	vx_focus_end();
}

// main-queue variant: every script runs on its own client thread, thread 0 calls dispatch_main()
// (which on Linux leaves through pthread_exit and hands the main queue to the pool); a finisher
// thread ends the execution once every item has run.
static void finisher(void *arg)
{
	(void)arg;
	int *a[2] = { &g_threads_done, (int *)(intptr_t)g_p->nthr };
	vx_wait_until(pred_int_ge, a);
	int *b[2] = { &g_items_ended, (int *)(intptr_t)g_items_expected };
	vx_wait_until(pred_int_ge, b);
	vx_end();
}
void qp_run_main(const qprog *p)
{
	g_p = p;
	g_items_expected = g_items_ended = g_gate_open = g_threads_done = 0;
	memset(g_ended, 0, sizeof g_ended); memset(g_subs_done, 0, sizeof g_subs_done);
	vx_set_horizon(12ull * 1000000000ull);
	for (int t = 0; t < p->nthr; t++) for (int k = 0; k < p->nops[t]; k++) {
		char o = p->ops[t][k].op;
		if (op_is_item(o)) g_items_expected += op_iters(o) ? op_iters(o) : 1;
	}
	g_group = dispatch_group_create();
	g_xsem = dispatch_semaphore_create(0); g_nx = 0;
	for (int i = 0; i < p->nq; i++) {
		if (p->q[i].kind == 'M') Q[i] = dispatch_get_main_queue();
		else if (p->q[i].kind == 'S') Q[i] = dispatch_queue_create_with_target("vx.q", NULL, p->q[i].target >= 0 ? Q[p->q[i].target] : NULL);
		else vx_fail("main-queue programs use M and S queues only");
	}
	vx_focus_begin();
	for (int t = 0; t < p->nthr; t++) vx_thread(client, (void *)(intptr_t)t);
	vx_thread(finisher, NULL);
	dispatch_main();
}

// ---- oracles ------------------------------------------------------------------

typedef struct { int id, thread, k, q; char op; int call, ret; int nint; int iid[3], st[3], en[3]; } qitem;

static int chain_has_serial_common(const qprog *p, int qa, int qb)
{
	for (int a = qa; a >= 0; a = p->q[a].target)
		for (int b = qb; b >= 0; b = p->q[b].target)
			if (a == b && is_serial_kind(p->q[a].kind)) return 1;
	return 0;
}
static int chain_has_serial(const qprog *p, int q)
{
	for (int a = q; a >= 0; a = p->q[a].target) if (is_serial_kind(p->q[a].kind)) return 1;
	return 0;
}

static int ordered(const qitem *a, const qitem *b)
{
	if (a->thread == b->thread) return a->k < b->k;
	return a->ret >= 0 && b->call >= 0 && a->ret < b->call;
}

int qp_check(const qprog *p, const vx_log *l, char *msg, size_t len)
{
	qitem it[QP_MAXT * QP_MAXOPS]; int n = 0;
	for (int t = 0; t < p->nthr; t++) for (int k = 0; k < p->nops[t]; k++) {
		const qp_op *o = &p->ops[t][k];
		if (!op_is_item(o->op)) continue;
		qitem *x = &it[n++];
		x->id = qp_item_id(t, k); x->thread = t; x->k = k; x->q = o->q; x->op = o->op;
		x->call = ev_first(l, EV_CALL, x->id); x->ret = ev_first(l, EV_RET, x->id);
		x->nint = op_iters(o->op) ? op_iters(o->op) : 1;
		for (int i = 0; i < x->nint; i++) {
			x->iid[i] = op_iters(o->op) ? x->id + 1000 * (i + 1) : x->id;
			int sc = ev_count(l, EV_START, x->iid[i]), ec = ev_count(l, EV_END, x->iid[i]);
			if (sc != 1 || ec != 1)
				FAILF(msg, len, "[exactly-once] item %d (op '%c%d' of thread %d%s) started %d times and ended %d times",
						x->iid[i], x->op, x->q, t, op_iters(o->op) ? ", apply iteration" : "", sc, ec);
			x->st[i] = ev_first(l, EV_START, x->iid[i]); x->en[i] = ev_first(l, EV_END, x->iid[i]);
			if (x->st[i] > x->en[i]) FAILF(msg, len, "item %d ended before it started", x->iid[i]);
			if (x->call < 0 || x->st[i] < x->call)
				FAILF(msg, len, "item %d started (event #%d) before it was submitted (event #%d)", x->iid[i], x->st[i], x->call);
		}
		if (x->ret < 0) FAILF(msg, len, "[returns] submission of item %d never returned", x->id);
		if (op_is_sync(x->op)) {
			for (int i = 0; i < x->nint; i++) if (x->en[i] > x->ret)
				FAILF(msg, len, "[sync-return] synchronous submission '%c%d' by thread %d returned (event #%d) before its item %d finished (event #%d)",
						x->op, x->q, t, x->ret, x->iid[i], x->en[i]);
		}
		if (op_iters(x->op) && chain_has_serial(p, x->q)) {
			for (int i = 0; i + 1 < x->nint; i++) if (x->en[i] > x->st[i + 1])
				FAILF(msg, len, "[apply-order] apply on a serial hierarchy ran iteration %d before iteration %d finished", i + 1, i);
		}
	}
	for (int a = 0; a < n; a++) for (int b = 0; b < n; b++) {
		if (a == b) continue;
		const qitem *x = &it[a], *y = &it[b];
		// exclusion through a common serial queue / workloop
		if (a < b && chain_has_serial_common(p, x->q, y->q)) {
			for (int i = 0; i < x->nint; i++) for (int j = 0; j < y->nint; j++)
				if (x->st[i] < y->en[j] && y->st[j] < x->en[i])
					FAILF(msg, len, "[serial-exclusion] items %d ('%c%d', thread %d) and %d ('%c%d', thread %d) share a serial queue in their target chains but overlapped: [#%d,#%d] vs [#%d,#%d]",
							x->iid[i], x->op, x->q, x->thread, y->iid[j], y->op, y->q, y->thread, x->st[i], x->en[i], y->st[j], y->en[j]);
		}
		// FIFO on one serial queue
		if (x->q == y->q && (p->q[x->q].kind == 'S' || p->q[x->q].kind == 'I' || p->q[x->q].kind == 'M') && ordered(x, y)) {
			if (x->en[x->nint - 1] > y->st[0])
				FAILF(msg, len, "[fifo] item %d ('%c', thread %d) was submitted to serial queue %d before item %d ('%c', thread %d) but item %d started (event #%d) before item %d finished (event #%d)",
						x->id, x->op, x->thread, x->q, y->id, y->op, y->thread, y->id, y->st[0], x->id, x->en[x->nint - 1]);
		}
		// barrier rules on a custom concurrent queue
		char kq = p->q[x->q].kind;
		if (x->q == y->q && (kq == 'C' || kq == 'N') && op_is_barrier(x->op)) {
			for (int j = 0; j < y->nint; j++) {
				if (x->st[0] < y->en[j] && y->st[j] < x->en[0])
					FAILF(msg, len, "[barrier-exclusion] barrier item %d ('%c%d', thread %d) overlapped item %d ('%c%d', thread %d): [#%d,#%d] vs [#%d,#%d]",
							x->id, x->op, x->q, x->thread, y->iid[j], y->op, y->q, y->thread, x->st[0], x->en[0], y->st[j], y->en[j]);
				if (ordered(y, x) && y->en[j] > x->st[0])
					FAILF(msg, len, "[barrier-order] item %d was submitted before barrier %d but had not finished (event #%d) when the barrier started (event #%d)",
							y->iid[j], x->id, y->en[j], x->st[0]);
				if (ordered(x, y) && x->en[0] > y->st[j])
					FAILF(msg, len, "[barrier-order] item %d was submitted after barrier %d returned but started (event #%d) before the barrier finished (event #%d)",
							y->iid[j], x->id, y->st[j], x->en[0]);
			}
		}
	}
	return 0;
}

// ---- table plumbing -----------------------------------------------------------

int qp_table_len(const char *const *tab) { int n = 0; while (tab[n]) n++; return n; }
void qp_table_describe(const char *const *tab, int v, char *b, size_t n) { snprintf(b, n, "%s", tab[v]); }
static qprog g_prog;
void qp_table_run(const char *const *tab, int v)
{
	if (qp_parse(tab[v], &g_prog)) vx_fail("cannot parse program '%s'", tab[v]);
	if (g_prog.q[0].kind == 'M') qp_run_main(&g_prog);
	else qp_run(&g_prog);
}
int qp_table_check(const char *const *tab, int v, const vx_log *l, char *msg, size_t len)
{
	qprog p;
	if (qp_parse(tab[v], &p)) FAILF(msg, len, "cannot parse program");
	return qp_check(&p, l, msg, len);
}
