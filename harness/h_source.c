// C15 — custom data sources coalesce without loss; handler never re-entered
//
// variant = type(ADD,OR,REPLACE) x target(serial, concurrent, global) x script
//   script: per-thread merge lists (values are distinct powers of two), optional
//   'suspended' (source suspended while the threads merge, resumed after the join) and
//   'reentrant' (the first handler invocation itself merges the value 32)
#include "hcommon.h"
#include <dispatch/private.h>

typedef struct { const char *name; int nthr; int vals[3][3]; int suspended, reentrant, inactive, nulltarget, selfsuspend; } script;
static const script SCRIPTS[] = {
	{ "T0:[1] T1:[2]", 2, { {1}, {2} }, 0, 0 },
	{ "T0:[1,4] T1:[2]", 2, { {1, 4}, {2} }, 0, 0 },
	{ "T0:[1,4] T1:[2,8]", 2, { {1, 4}, {2, 8} }, 0, 0 },
	{ "T0:[1] T1:[2] T2:[4]", 3, { {1}, {2}, {4} }, 0, 0 },
	{ "suspended T0:[1,4] T1:[2]", 2, { {1, 4}, {2} }, 1, 0 },
	{ "reentrant T0:[1] T1:[2]", 2, { {1}, {2} }, 0, 1 },
	{ "T0:[1,4,16]", 1, { {1, 4, 16} }, 0, 0 },
	{ "not yet activated (dispatch_activate after the merges) T0:[1,4] T1:[2]", 2, { {1, 4}, {2} }, 0, 0, 1 },
	{ "dispatch_activate racing the merges T0:[activate,1,4] T1:[2]", 2, { {1, 4}, {2} }, 0, 0, 2 },
	// the source's target is the default (NULL: an overcommit root queue, no queue of its own in between); the 'target' coordinate is ignored
	{ "default target (NULL) reentrant T0:[1]", 1, { {1} }, 0, 1, 0, 1 },
	{ "default target (NULL) reentrant T0:[1] T1:[2]", 2, { {1}, {2} }, 0, 1, 0, 1 },
	{ "default target (NULL) T0:[1,4] T1:[2]", 2, { {1, 4}, {2} }, 0, 0, 0, 1 },
	// the first handler invocation suspends its own source and then merges: nothing may be delivered before dispatch_resume
	{ "default target (NULL), the handler suspends its source and merges 32 T0:[1]", 1, { {1} }, 0, 1, 0, 1, 1 },
	{ "the handler suspends its source and merges 32 T0:[1] T1:[2]", 2, { {1}, {2} }, 0, 1, 0, 0, 1 },
};
#define NSCRIPTS ((int)(sizeof(SCRIPTS) / sizeof(SCRIPTS[0])))
static const char *const TYPES[] = { "DATA_ADD", "DATA_OR", "DATA_REPLACE" };
static const char *const TARGETS[] = { "serial queue", "concurrent queue", "global queue" };
#define SENTINEL 64
#define HANDLER 100

static dispatch_source_t g_src;
static const script *g_s;
static int g_type, g_seen_sentinel, g_first = 1, g_reent_done, g_ninv;
static unsigned long g_sum, g_or;
enum { EV_MERGE_CALL = EV_USER, EV_MERGE_RET, EV_DELIVER, EV_SELF_SUSPENDED, EV_SELF_RESUME };

static void handler(void *ctx)
{
	(void)ctx;
	vx_ev(EV_START, HANDLER, 0);
	unsigned long v = dispatch_source_get_data(g_src);
	vx_ev(EV_DELIVER, 0, (int64_t)v);
	g_ninv++;
	g_sum += v; g_or |= v;
	if (g_type == 2 ? v == SENTINEL : (v & SENTINEL)) g_seen_sentinel = 1;
	if (g_s->reentrant && g_first) {
		g_first = 0;
		if (g_s->selfsuspend) { dispatch_suspend(g_src); vx_ev(EV_SELF_SUSPENDED, 0, 0); }
		vx_ev(EV_MERGE_CALL, 99, 32);
		dispatch_source_merge_data(g_src, 32);
		vx_ev(EV_MERGE_RET, 99, 32);
		g_reent_done = 1;
	}
	vx_point();
	vx_ev(EV_END, HANDLER, 0);
}

static void merger(void *arg)
{
	int t = (int)(intptr_t)arg;
	for (int k = 0; k < 3 && g_s->vals[t][k]; k++) {
		vx_ev(EV_MERGE_CALL, t * 8 + k, g_s->vals[t][k]);
		dispatch_source_merge_data(g_src, (unsigned long)g_s->vals[t][k]);
		vx_ev(EV_MERGE_RET, t * 8 + k, g_s->vals[t][k]);
	}
}

static void warm_fn(void *c) { *(int *)c = 1; }
static int nvariants(void) { return 3 * 3 * NSCRIPTS; }
static void describe(int v, char *b, size_t n)
{
	snprintf(b, n, "%s source on a %s; merges %s; then a final merge of %d", TYPES[v % 3], TARGETS[(v / 3) % 3], SCRIPTS[v / 9].name, SENTINEL);
}

static void run(int v)
{
	g_type = v % 3; g_s = &SCRIPTS[v / 9];
	int tk = (v / 3) % 3;
	g_sum = g_or = 0; g_seen_sentinel = 0; g_first = 1; g_reent_done = 0; g_ninv = 0;
	vx_set_horizon(12ull * 1000000000ull);
	dispatch_queue_t q = g_s->nulltarget ? NULL : tk == 0 ? dispatch_queue_create("vx.src", NULL) :
			tk == 1 ? dispatch_queue_create("vx.src", DISPATCH_QUEUE_CONCURRENT) : dispatch_get_global_queue(0, 0);
	int d = 0; dispatch_async_f(q ? q : dispatch_get_global_queue(0, DISPATCH_QUEUE_OVERCOMMIT), &d, warm_fn); int *a[2] = { &d, (int *)(intptr_t)1 }; vx_wait_until(pred_int_ge, a);
	dispatch_source_type_t ty = g_type == 0 ? DISPATCH_SOURCE_TYPE_DATA_ADD : g_type == 1 ? DISPATCH_SOURCE_TYPE_DATA_OR : DISPATCH_SOURCE_TYPE_DATA_REPLACE;
	g_src = dispatch_source_create(ty, 0, 0, q);
	dispatch_source_set_event_handler_f(g_src, handler);
	if (!g_s->inactive) dispatch_activate(g_src);
	if (g_s->suspended) dispatch_suspend(g_src);
	int th[3];
	vx_focus_begin();
	for (int t = 1; t < g_s->nthr; t++) th[t] = vx_thread(merger, (void *)(intptr_t)t);
	if (g_s->inactive == 2) dispatch_activate(g_src);
	merger((void *)0);
	for (int t = 1; t < g_s->nthr; t++) vx_join(th[t]);
	if (g_s->inactive == 1) dispatch_activate(g_src);
	if (g_s->suspended) dispatch_resume(g_src);
	if (g_s->reentrant) {
		// the sentinel must be the strictly last merge: wait for the handler's own merge first
		int *c[2] = { &g_reent_done, (int *)(intptr_t)1 };
		vx_wait_until(pred_int_ge, c);
		if (g_s->selfsuspend) {
			vx_sleep_ns(1 * MS);            // time for a wrongly delivered value to show
			vx_ev(EV_SELF_RESUME, 0, 0);
			dispatch_resume(g_src);
		}
		// ... and that merge must be delivered by a further invocation WITHOUT any help from a later merge
		// (a stuck witness here means the value merged from the handler was left pending with the source idle)
		int *c2[2] = { &g_ninv, (int *)(intptr_t)2 };
		vx_wait_until(pred_int_ge, c2);
	}
	vx_ev(EV_MERGE_CALL, 90, SENTINEL);
	dispatch_source_merge_data(g_src, SENTINEL);
	vx_ev(EV_MERGE_RET, 90, SENTINEL);
	int *b[2] = { &g_seen_sentinel, (int *)(intptr_t)1 };
	vx_wait_until(pred_int_ge, b);
	// the handler invocation that saw the sentinel must finish
	vx_focus_end();
}

static int check(int v, const vx_log *l, char *msg, size_t len)
{
	int type = v % 3;
	unsigned long msum = 0, mor = 0, dsum = 0, dor = 0, last = 0; int nd = 0;
	unsigned long merged[32]; int nm = 0;
	for (uint32_t i = 0; i < l->n; i++) {
		const vx_event *e = &l->ev[i];
		if (e->kind == EV_MERGE_CALL) { msum += (unsigned long)e->arg; mor |= (unsigned long)e->arg; merged[nm++] = (unsigned long)e->arg; }
		if (e->kind == EV_DELIVER) {
			unsigned long d = (unsigned long)e->arg;
			if (d == 0) FAILF(msg, len, "handler invocation (event #%u) reported dispatch_source_get_data() == 0", e->seq);
			dsum += d; dor |= d; last = d; nd++;
			if (type == 2) {
				int ok = 0; for (int k = 0; k < nm; k++) if (merged[k] == d) ok = 1;
				if (!ok) FAILF(msg, len, "DATA_REPLACE delivered %lu which was never merged before event #%u", d, e->seq);
			}
		}
	}
	int id = HANDLER;
	if (orc_disjoint(l, &id, 1, msg, len)) return 1;
	int susp = ev_first(l, EV_SELF_SUSPENDED, 0), resm = ev_first(l, EV_SELF_RESUME, 0);
	if (susp >= 0) for (uint32_t i = 0; i < l->n; i++)
		if (l->ev[i].kind == EV_START && l->ev[i].id == HANDLER && (int)i > susp && (resm < 0 || (int)i < resm))
			FAILF(msg, len, "the event handler was invoked (event #%u) while the source was suspended (dispatch_suspend returned at event #%d, dispatch_resume called at event #%d)", i, susp, resm);
	if (type == 0 && dsum != msum) FAILF(msg, len, "DATA_ADD: merged values sum to %lu but handler invocations delivered %lu in %d invocations", msum, dsum, nd);
	if (type == 1 && dor != mor) FAILF(msg, len, "DATA_OR: merged masks union is 0x%lx but delivered union is 0x%lx", mor, dor);
	if (type == 2 && last != SENTINEL) FAILF(msg, len, "DATA_REPLACE: the final merge (%d, issued after every other merge returned) was not the last value delivered (last = %lu)", SENTINEL, last);
	return 0;
}

const vx_harness h_source = { "source", "C15", nvariants, describe, run, check, 0, 0 };
