// vx.c — the in-child serialising scheduler and the link-time wrappers that
// give it ownership of libdispatch's environment (threads, futex, POSIX
// semaphores, clocks, timerfd, epoll_wait, /proc/<tid>/stat, CPU count).
//
// Exactly one registered thread runs at a time.  A thread can only lose the
// CPU at a "point": a hooked atomic (H1), a busy-wait iteration (H2), a
// wrapped blocking call, or vx_point().  At each point the running thread
// computes the canonical list of choices (threads first: itself if still
// enabled, then ascending index; then pending deadlines), takes the choice
// dictated by the replay prefix or choice 0, and records the point.
#define _GNU_SOURCE
#include <errno.h>
#include <fcntl.h>
#include <limits.h>
#include <linux/futex.h>
#include <poll.h>
#include <pthread.h>
#include <sched.h>
#include <semaphore.h>
#include <signal.h>
#include <stdarg.h>
#include <stdio.h>
#include <stdlib.h>
#include <string.h>
#include <sys/epoll.h>
#include <sys/eventfd.h>
#include <sys/mman.h>
#include <sys/syscall.h>
#include <sys/timerfd.h>
#include <time.h>
#include <unistd.h>
#include "vx_int.h"

extern void (*_dispatch_verif_atomic_hook)(const volatile void *, int, int);
extern void (*_dispatch_verif_spin_hook)(void);

// real symbols behind -Wl,--wrap
extern long __real_syscall(long n, ...);
extern int __real_pthread_create(pthread_t *, const pthread_attr_t *,
		void *(*)(void *), void *);
extern int __real_pthread_join(pthread_t, void **);
extern int __real_clock_gettime(clockid_t, struct timespec *);
extern int __real_epoll_wait(int, struct epoll_event *, int, int);
extern int __real_epoll_ctl(int, int, int, struct epoll_event *);
extern int __real_timerfd_create(int, int);
extern int __real_timerfd_settime(int, int, const struct itimerspec *,
		struct itimerspec *);
extern int __real_sem_init(sem_t *, int, unsigned);
extern int __real_sem_destroy(sem_t *);
extern int __real_sem_post(sem_t *);
extern int __real_sem_wait(sem_t *);
extern int __real_sem_timedwait(sem_t *, const struct timespec *);
extern int __real_sem_trywait(sem_t *);
extern int __real_usleep(useconds_t);
extern unsigned __real_sleep(unsigned);
extern int __real_nanosleep(const struct timespec *, struct timespec *);
extern int __real_sched_yield(void);
extern int __real_open(const char *, int, ...);
extern int __real_close(int);
extern int __real_pthread_getaffinity_np(pthread_t, size_t, cpu_set_t *);

#define VX_MAXT 48
#define NODL UINT64_MAX
#define NSEC 1000000000ull

enum { TS_UNUSED = 0, TS_READY, TS_BLOCKED, TS_DONE };
enum { BLK_NONE = 0, BLK_FUTEX, BLK_LOCKPI, BLK_SEM, BLK_EPOLL, BLK_SLEEP,
	BLK_PRED, BLK_JOIN, BLK_IDLE };
static const char *const blk_names[] = { "-", "futex", "lock_pi", "sem",
	"epoll", "sleep", "pred", "join", "idle" };

// point kinds (for the trace); 0..5 are the atomic kinds of the hook
enum { K_LOAD = 0, K_STORE, K_XCHG, K_CAS, K_RMW, K_FENCE, K_SPIN,
	K_FUTEX_WAIT, K_FUTEX_WAKE, K_LOCK_PI, K_UNLOCK_PI, K_SEM_POST,
	K_SEM_WAIT, K_EPOLL_WAIT, K_EPOLL_CTL, K_SLEEP, K_CREATE, K_USER,
	K_JOIN, K_TIMERFD, K_WAITPRED, K_START, K_EXIT, K_IO };
static const char *const kind_names[] = { "load", "store", "xchg", "cas",
	"rmw", "fence", "spin", "futex_wait", "futex_wake", "lock_pi",
	"unlock_pi", "sem_post", "sem_wait", "epoll_wait", "epoll_ctl", "sleep",
	"thread_create", "point", "join", "timerfd_settime", "wait_pred",
	"thread_start", "thread_exit", "io" };

typedef struct vx_thr {
	int idx, state, blk;
	volatile int word;            // baton: 1 = run
	const void *blk_addr;
	uint64_t deadline;            // vt at which a timed block expires
	uint64_t blk_seq;             // FIFO order among waiters
	int timed_out, handed, would_block, spurious;
	int (*pred)(void *);
	void *pred_ctx;
	int join_target, epfd;
	int spinning;
	uint64_t spin_at;
	void *(*fn)(void *);
	void *arg;
	pthread_t pth;
	int harness_thread;
	void (*hfn)(void *);
	char note[24];
	int cur_kind;
} vx_thr;

static vx_thr g_thr[VX_MAXT];
static int g_nthr;
static int g_active;               // scheduler attached (child only)
static __thread vx_thr *vx_me;
static pthread_key_t g_key;
static vx_result *g_res;
static uint64_t g_vt, g_step, g_stepcap, g_blkseq;
static uint64_t g_horizon = 30 * NSEC;
static int g_focus, g_timedev, g_trace, g_spurious = 1;
static int g_io_only;              // C14: branch only at I/O syscalls on watched fds
static int g_fault_budget, g_fault_pending;   // at most one injected I/O answer per execution
static uint32_t g_pi;              // next prefix entry
static uint64_t g_hash = 1469598103934665603ull;
static int g_ncpu = 2;
static int g_alive;

// emulated timerfds
#define VX_MAXTFD 8
static struct { int fd; int clockid; uint64_t expiry_vt; int armed; } g_tfd[VX_MAXTFD];
static int g_ntfd;

// mirrored epoll table
#define VX_MAXEP 64
static struct { int fd; uint32_t events; int used; } g_ep[VX_MAXEP];

static vx_log *g_log;

static inline void hash_mix(uint64_t v)
{
	g_hash ^= v; g_hash *= 1099511628211ull;
}

static void raw_futex_wait(volatile int *w, int val)
{
	__real_syscall(SYS_futex, w, FUTEX_WAIT, val, NULL, NULL, 0);
}
static void raw_futex_wake(volatile int *w)
{
	__real_syscall(SYS_futex, w, FUTEX_WAKE, 1, NULL, NULL, 0);
}

static void vx_dump_threads(char *buf, size_t len)
{
	size_t o = strlen(buf);
	for (int i = 0; i < g_nthr && o + 96 < len; i++) {
		vx_thr *t = &g_thr[i];
		o += (size_t)snprintf(buf + o, len - o, " T%d:%s%s%s%s%s%s", i,
				t->state == TS_READY ? "ready" :
				t->state == TS_BLOCKED ? "blocked/" :
				t->state == TS_DONE ? "done" : "?",
				t->state == TS_BLOCKED ? blk_names[t->blk] : "",
				(t->state == TS_READY && t->spinning) ? "(spin)" : "",
				t->note[0] ? "[" : "", t->note, t->note[0] ? "]" : "");
	}
}

static void vx_finish(int verdict, const char *fmt, ...) __attribute__((noreturn));
static void vx_finish(int verdict, const char *fmt, ...)
{
	g_active = 0;
	_dispatch_verif_atomic_hook = NULL;
	_dispatch_verif_spin_hook = NULL;
	if (fmt) {
		va_list ap; va_start(ap, fmt);
		vsnprintf(g_res->msg, sizeof(g_res->msg), fmt, ap);
		va_end(ap);
	}
	if (verdict == V_STUCK) vx_dump_threads(g_res->msg, sizeof(g_res->msg));
	g_res->nsteps = g_step;
	g_res->vt_end = g_vt;
	g_res->trace_hash = g_hash;
	uint64_t oh = 1469598103934665603ull;
	for (uint32_t i = 0; i < g_log->n; i++) {
		const vx_event *e = &g_log->ev[i];
		oh ^= ((uint64_t)e->kind << 48) ^ ((uint64_t)(uint32_t)e->id << 16) ^
				(uint64_t)e->arg ^ ((uint64_t)e->thread << 40);
		oh *= 1099511628211ull;
	}
	g_res->outcome_hash = oh;
	__atomic_store_n(&g_res->verdict, verdict, __ATOMIC_SEQ_CST);
	if (g_trace) fprintf(stderr, "[vx] finish verdict=%d %s\n", verdict, g_res->msg);
	_exit(verdict == V_OK ? 0 : 10 + verdict);
}

void vx_fail(const char *fmt, ...)
{
	char b[1024];
	va_list ap; va_start(ap, fmt); vsnprintf(b, sizeof b, fmt, ap); va_end(ap);
	vx_finish(V_ORACLE, "%s", b);
}

// ---------------------------------------------------------------------------
// time

static uint64_t clock_base(int clockid)
{
	switch (clockid) {
	case CLOCK_REALTIME: case CLOCK_REALTIME_COARSE: return VX_BASE_REALTIME;
	case CLOCK_BOOTTIME: return VX_BASE_BOOTTIME;
	default: return VX_BASE_MONOTONIC;
	}
}

static void tfd_fire_due(void)
{
	for (int i = 0; i < g_ntfd; i++) {
		if (g_tfd[i].armed && g_tfd[i].expiry_vt <= g_vt) {
			uint64_t one = 1;
			g_tfd[i].armed = 0;
			if (write(g_tfd[i].fd, &one, 8) != 8) { /* counter saturated: still readable */ }
			if (g_trace) fprintf(stderr, "[vx]     timerfd %d (clock %d) expires at vt=%llu\n",
					g_tfd[i].fd, g_tfd[i].clockid, (unsigned long long)g_vt);
		}
	}
}

static void advance_time(uint64_t to, int forced)
{
	if (to > g_vt) g_vt = to;
	if (g_trace) fprintf(stderr, "[vx]   time -> %llu ns\n", (unsigned long long)g_vt);
	for (int i = 0; i < g_nthr; i++) {
		vx_thr *t = &g_thr[i];
		if (t->state == TS_BLOCKED && t->deadline != NODL && t->deadline <= g_vt) {
			t->timed_out = 1; t->state = TS_READY; t->blk = BLK_NONE; t->deadline = NODL;
		}
	}
	tfd_fire_due();
	g_step++; hash_mix(0xfeed0000ull + (g_vt & 0xffffffffffffull));
	if (forced && g_vt > g_horizon) {
		vx_finish(V_STUCK, "virtual time passed the horizon (%llu ms) before the harness finished;",
				(unsigned long long)(g_horizon / 1000000));
	}
}

// distinct pending deadlines > now, ascending; returns count (cap)
static int collect_deadlines(uint64_t *out, int cap)
{
	int n = 0;
	uint64_t cand[VX_MAXT + VX_MAXTFD]; int nc = 0;
	for (int i = 0; i < g_nthr; i++)
		if (g_thr[i].state == TS_BLOCKED && g_thr[i].deadline != NODL)
			cand[nc++] = g_thr[i].deadline;
	for (int i = 0; i < g_ntfd; i++)
		if (g_tfd[i].armed) cand[nc++] = g_tfd[i].expiry_vt;
	// selection of the `cap` smallest distinct
	uint64_t last = 0; int have_last = 0;
	while (n < cap) {
		uint64_t best = NODL;
		for (int i = 0; i < nc; i++)
			if ((!have_last || cand[i] > last) && cand[i] < best) best = cand[i];
		if (best == NODL) break;
		out[n++] = best; last = best; have_last = 1;
	}
	return n;
}

// ---------------------------------------------------------------------------
// scheduling core

static int thread_enabled(vx_thr *t)
{
	if (t->state == TS_READY) return !t->spinning || g_step != t->spin_at;
	if (t->state != TS_BLOCKED) return 0;
	switch (t->blk) {
	case BLK_EPOLL: {
		struct pollfd p = { .fd = t->epfd, .events = POLLIN };
		if (poll(&p, 1, 0) > 0) { t->state = TS_READY; t->blk = BLK_NONE; t->deadline = NODL; return 1; }
		return 0; }
	case BLK_PRED:
		if (t->pred(t->pred_ctx)) { t->state = TS_READY; t->blk = BLK_NONE; return 1; }
		return 0;
	case BLK_JOIN:
		if (g_thr[t->join_target].state == TS_DONE) { t->state = TS_READY; t->blk = BLK_NONE; return 1; }
		return 0;
	default:
		return 0;
	}
}

static void switch_to(vx_thr *self, vx_thr *to)
{
	if (to == self) return;
	int self_done = (self->state == TS_DONE);
	__atomic_store_n(&to->word, 1, __ATOMIC_SEQ_CST);
	raw_futex_wake(&to->word);
	if (self_done) return;
	while (__atomic_load_n(&self->word, __ATOMIC_SEQ_CST) == 0) raw_futex_wait(&self->word, 0);
	__atomic_store_n(&self->word, 0, __ATOMIC_SEQ_CST);
}

static int next_choice(int total, int nthr, int self_en)
{
	uint32_t pt = g_res->npoints;
	int choice = 0;
	if (pt >= VX_MAXPTS) vx_finish(V_STEPCAP, "more than %d choice points", VX_MAXPTS);
	if (g_pi < g_res->plen && g_res->prefix[g_pi].pos == pt) {
		const vx_prefix_ent *pe = &g_res->prefix[g_pi++];
		if (pe->hash != (uint32_t)g_hash || pe->total != total || pe->choice >= total) {
			vx_finish(V_NONDET, "replay diverged at point %u: recorded hash %08x total %d, "
					"now hash %08x total %d", pt, pe->hash, pe->total, (uint32_t)g_hash, total);
		}
		choice = pe->choice;
	}
	vx_point_rec *r = &g_res->pts[pt];
	r->total = (uint8_t)total; r->nthr = (uint8_t)nthr; r->self_en = (uint8_t)self_en;
	r->choice = (uint8_t)choice; r->hash = (uint32_t)g_hash;
	g_res->npoints = pt + 1;
	return choice;
}

// Called by the running thread whenever it reaches a point or blocks/exits.
static void vx_schedule(vx_thr *self)
{
	vx_thr *target;
	if (g_step > g_stepcap) vx_finish(V_STEPCAP, "step cap %llu reached", (unsigned long long)g_stepcap);
	for (;;) {
		int en[VX_MAXT], n = 0, idle[VX_MAXT], ni = 0;
		int self_en = thread_enabled(self);
		if (self_en) en[n++] = self->idx;
		for (int i = 0; i < g_nthr; i++) {
			if (i == self->idx) continue;
			if (g_thr[i].state == TS_BLOCKED && g_thr[i].blk == BLK_IDLE) idle[ni++] = i;
			else if (thread_enabled(&g_thr[i])) en[n++] = i;
		}
		if (self->state == TS_BLOCKED && self->blk == BLK_IDLE) { idle[ni++] = self->idx; }
		int at_io = (self_en && self->cur_kind == K_IO), quiescent = 0;
		if (n == 0 && ni > 0) {
			quiescent = 1;
			// quiescence: the environment (idle-waiting peers) makes its next move
			for (int i = 0; i < ni; i++) en[n++] = idle[i];
			ni = 0;
		} else if (at_io && g_focus) {
			// the peer's next move may also land right before this I/O syscall (a deviation)
			for (int i = 0; i < ni; i++) en[n++] = idle[i];
		}
		if (n == 0) {
			uint64_t d;
			if (!collect_deadlines(&d, 1)) {
				vx_finish(V_STUCK, "no thread enabled and no deadline pending (vt=%llu ns);",
						(unsigned long long)g_vt);
			}
			advance_time(d, 1);
			continue;
		}
		uint64_t dl[3]; int nd = 0, nf = 0;
		if (g_focus && g_timedev) {
			nd = collect_deadlines(dl, 2);
			while (nd > 0 && dl[nd - 1] > g_horizon) nd--;   // never jump past the horizon by choice
		}
		if (g_focus && at_io && g_fault_budget > 0) nf = 2;   // short transfer, EINTR (a spurious EAGAIN cannot happen on a pipe/file whose state we own)
		// a blocking wait that is about to sleep may instead come back without a wake-up (futex(2): "a return
		// value of 0 can mean a spurious wake-up"; sem_wait(3): EINTR): one more environment answer, cost 1
		int ns = (g_focus && g_spurious && !g_io_only && self_en && self->would_block &&
				(self->cur_kind == K_FUTEX_WAIT || self->cur_kind == K_SEM_WAIT)) ? 1 : 0;
		int total = n + nd + nf + ns, choice = 0;
		if (g_focus && total > 1 && (!g_io_only || at_io || quiescent)) choice = next_choice(total, n, self_en);   // which environment thread moves at quiescence is a (free) choice in every mode
		if (choice >= n + nd + nf) {
			if (g_trace) fprintf(stderr, "[vx]   choice %d/%d: the wait returns without a wake-up\n", choice, total);
			self->spurious = 1;
			target = self;
			break;
		}
		if (choice >= n + nd) {
			g_fault_pending = choice - (n + nd) + 1; g_fault_budget--;
			if (g_trace) fprintf(stderr, "[vx]   choice %d/%d: inject I/O answer %d\n", choice, total, g_fault_pending);
			target = self;
			break;
		}
		if (choice >= n) {
			if (g_trace) fprintf(stderr, "[vx]   choice %d/%d: deadline elapses first\n", choice, total);
			advance_time(dl[choice - n], 0);
			continue;
		}
		if (g_trace && total > 1) fprintf(stderr, "[vx]   choice %d/%d -> T%d\n", choice, total, en[choice]);
		target = &g_thr[en[choice]];
		if (target->state == TS_BLOCKED && target->blk == BLK_IDLE) { target->state = TS_READY; target->blk = BLK_NONE; }
		break;
	}
	switch_to(self, target);
}

static inline void vx_step(vx_thr *self, int kind, const void *addr)
{
	g_step++;
	self->cur_kind = kind;
	hash_mix(((uint64_t)self->idx << 8) | (uint64_t)kind);
	if (g_trace) fprintf(stderr, "[vx] %5llu T%d %s %p\n", (unsigned long long)g_step,
			self->idx, kind_names[kind], addr);
}

// a point: the calling thread stays READY
static void vx_pt(int kind, const void *addr)
{
	vx_thr *self = vx_me;
	if (!self) vx_finish(V_ENGINE, "point reached on an unregistered thread (kind %s)", kind_names[kind]);
	if (self->state == TS_DONE) vx_finish(V_ENGINE, "point reached after thread exit (kind %s)", kind_names[kind]);
	vx_step(self, kind, addr);
	vx_schedule(self);
}

static void vx_block(vx_thr *self, int blk, const void *addr, uint64_t deadline)
{
	self->state = TS_BLOCKED; self->blk = blk; self->blk_addr = addr;
	self->deadline = deadline; self->timed_out = 0; self->handed = 0;
	self->blk_seq = ++g_blkseq;
	if (deadline != NODL && deadline <= g_vt) {
		self->timed_out = 1; self->state = TS_READY; self->blk = BLK_NONE; self->deadline = NODL;
	}
	if (g_trace) fprintf(stderr, "[vx]       T%d blocks (%s)\n", self->idx, blk_names[blk]);
	vx_schedule(self);
	self->blk_addr = NULL;
}

static void atomic_hook(const volatile void *addr, int kind, int order)
{
	(void)order;
	if (!g_active) return;
	vx_pt(kind, (const void *)addr);
}

static void spin_hook(void)
{
	if (!g_active) return;
	vx_thr *self = vx_me;
	if (!self) vx_finish(V_ENGINE, "spin on unregistered thread");
	vx_step(self, K_SPIN, NULL);
	self->spinning = 1; self->spin_at = g_step;
	vx_schedule(self);
	self->spinning = 0;
}

// ---------------------------------------------------------------------------
// harness API

uint32_t vx_ev(int kind, int id, int64_t arg)
{
	vx_log *l = g_log;
	if (l->n >= VX_MAXEV) vx_finish(V_ENGINE, "event log overflow");
	vx_event *e = &l->ev[l->n];
	e->seq = l->n; e->kind = (uint16_t)kind; e->thread = (uint16_t)(vx_me ? vx_me->idx : 0);
	e->id = id; e->arg = arg; e->vt = g_vt;
	if (g_trace) fprintf(stderr, "[vx]     EV #%u T%u kind=%d id=%d arg=%lld vt=%llu\n", e->seq,
			e->thread, kind, id, (long long)arg, (unsigned long long)g_vt);
	return l->n++;
}
const vx_log *vx_get_log(void) { return g_log; }
void vx_point(void) { if (g_active) vx_pt(K_USER, NULL); }
void vx_focus_begin(void) { g_focus = 1; }
void vx_focus_end(void) { g_focus = 0; }
void vx_expect_crash(void) { g_res->expect_crash = 1; }
uint64_t vx_vt(void) { return g_vt; }
void vx_set_horizon(uint64_t ns) { g_horizon = ns; }
void vx_set_time_deviations(int on) { g_timedev = on; }
void vx_set_spurious(int on) { g_spurious = on; }
int vx_ncpu(void) { return g_ncpu; }
int vx_self(void) { return vx_me ? vx_me->idx : -1; }
void vx_note(const char *note) { if (vx_me) snprintf(vx_me->note, sizeof vx_me->note, "%s", note ? note : ""); }

void vx_wait_until(int (*pred)(void *), void *ctx)
{
	vx_thr *self = vx_me;
	vx_step(self, K_WAITPRED, NULL);
	if (pred(ctx)) { vx_schedule(self); return; }
	self->pred = pred; self->pred_ctx = ctx;
	vx_block(self, BLK_PRED, NULL, NODL);
}

void vx_sleep_ns(uint64_t ns)
{
	vx_thr *self = vx_me;
	vx_step(self, K_SLEEP, NULL);
	vx_block(self, BLK_SLEEP, NULL, g_vt + ns);
}

void vx_wait_idle(void)
{
	vx_thr *self = vx_me;
	vx_step(self, K_WAITPRED, NULL);
	vx_block(self, BLK_IDLE, NULL, NODL);
}
void vx_set_io_only(int on, int faults) { g_io_only = on; g_fault_budget = faults; }

int vx_epoll_armed(int fd)
{
	for (int i = 0; i < VX_MAXEP; i++) if (g_ep[i].used && g_ep[i].fd == fd) return (int)g_ep[i].events;
	return -1;
}

// ---------------------------------------------------------------------------
// threads

static void thread_exit_dtor(void *p)
{
	vx_thr *self = p;
	if (!g_active) return;
	vx_step(self, K_EXIT, NULL);
	self->state = TS_DONE;
	g_alive--;
	if (g_trace) fprintf(stderr, "[vx]       T%d exits\n", self->idx);
	vx_schedule(self);   // passes the baton, does not wait
}

static void *trampoline(void *p)
{
	vx_thr *self = p;
	vx_me = self;
	while (__atomic_load_n(&self->word, __ATOMIC_SEQ_CST) == 0) raw_futex_wait(&self->word, 0);
	__atomic_store_n(&self->word, 0, __ATOMIC_SEQ_CST);
	pthread_setspecific(g_key, self);
	if (self->harness_thread) { self->hfn(self->arg); return NULL; }
	return self->fn(self->arg);
}

static vx_thr *new_thread(void)
{
	if (g_nthr >= VX_MAXT) vx_finish(V_ENGINE, "too many threads");
	vx_thr *t = &g_thr[g_nthr];
	memset(t, 0, sizeof *t);
	t->idx = g_nthr++; t->state = TS_READY; t->deadline = NODL;
	g_alive++;
	if ((uint32_t)g_alive > g_res->maxthreads) g_res->maxthreads = (uint32_t)g_alive;
	return t;
}

int __wrap_pthread_create(pthread_t *th, const pthread_attr_t *attr,
		void *(*fn)(void *), void *arg)
{
	if (!g_active) return __real_pthread_create(th, attr, fn, arg);
	vx_pt(K_CREATE, NULL);
	vx_thr *t = new_thread();
	t->fn = fn; t->arg = arg;
	int rc = __real_pthread_create(th, attr, trampoline, t);
	if (rc) vx_finish(V_ENGINE, "pthread_create failed: %d", rc);
	t->pth = *th;
	return 0;
}

int vx_thread(void (*fn)(void *), void *arg)
{
	vx_pt(K_CREATE, NULL);
	vx_thr *t = new_thread();
	t->harness_thread = 1; t->hfn = fn; t->arg = arg;
	int rc = __real_pthread_create(&t->pth, NULL, trampoline, t);
	if (rc) vx_finish(V_ENGINE, "pthread_create failed: %d", rc);
	return t->idx;
}

void vx_join(int ti)
{
	vx_thr *self = vx_me;
	vx_step(self, K_JOIN, NULL);
	if (g_thr[ti].state != TS_DONE) {
		self->join_target = ti;
		vx_block(self, BLK_JOIN, NULL, NODL);
	} else {
		vx_schedule(self);
	}
	__real_pthread_join(g_thr[ti].pth, NULL);
}

int __wrap_pthread_join(pthread_t th, void **ret)
{
	if (!g_active) return __real_pthread_join(th, ret);
	for (int i = 0; i < g_nthr; i++) if (pthread_equal(g_thr[i].pth, th) && i != 0) {
		vx_thr *self = vx_me;
		vx_step(self, K_JOIN, NULL);
		if (g_thr[i].state != TS_DONE) { self->join_target = i; vx_block(self, BLK_JOIN, NULL, NODL); }
		else vx_schedule(self);
		break;
	}
	return __real_pthread_join(th, ret);
}

int __wrap_pthread_getaffinity_np(pthread_t th, size_t sz, cpu_set_t *set)
{
	(void)th;
	const char *e = getenv("VX_NCPU");
	int n = e ? atoi(e) : 2;
	if (n < 1) n = 1;
	g_ncpu = n;
	memset(set, 0, sz);
	for (int i = 0; i < n; i++) CPU_SET_S(i, sz, set);
	return 0;
}

// ---------------------------------------------------------------------------
// futex / gettid

static int tid_of(vx_thr *t) { return 1000 + t->idx; }

static vx_thr *first_waiter(int blk, const void *addr)
{
	vx_thr *best = NULL;
	for (int i = 0; i < g_nthr; i++) {
		vx_thr *t = &g_thr[i];
		if (t->state == TS_BLOCKED && t->blk == blk && t->blk_addr == addr &&
				(!best || t->blk_seq < best->blk_seq)) best = t;
	}
	return best;
}

static uint64_t rel_deadline(const struct timespec *ts)
{
	if (!ts) return NODL;
	return g_vt + (uint64_t)ts->tv_sec * NSEC + (uint64_t)ts->tv_nsec;
}

static long vx_futex(uint32_t *uaddr, int op, uint32_t val, const struct timespec *timeout)
{
	vx_thr *self = vx_me;
	int cmd = op & FUTEX_CMD_MASK;
	switch (cmd) {
	case FUTEX_WAIT:
		self->would_block = (__atomic_load_n(uaddr, __ATOMIC_SEQ_CST) == val);
		vx_pt(K_FUTEX_WAIT, uaddr);
		self->would_block = 0;
		if (self->spurious) { self->spurious = 0; g_res->nspurious++; return 0; }
		if (__atomic_load_n(uaddr, __ATOMIC_SEQ_CST) != val) { errno = EAGAIN; return -1; }
		vx_block(self, BLK_FUTEX, uaddr, rel_deadline(timeout));
		if (self->timed_out) { errno = ETIMEDOUT; return -1; }
		return 0;
	case FUTEX_WAKE: {
		vx_pt(K_FUTEX_WAKE, uaddr);
		long woken = 0;
		while ((uint32_t)woken < val) {
			vx_thr *w = first_waiter(BLK_FUTEX, uaddr);
			if (!w) break;
			w->state = TS_READY; w->blk = BLK_NONE; w->deadline = NODL;
			woken++;
		}
		return woken; }
	case FUTEX_LOCK_PI:
		vx_pt(K_LOCK_PI, uaddr);
		for (;;) {
			uint32_t v = __atomic_load_n(uaddr, __ATOMIC_SEQ_CST);
			if ((v & FUTEX_TID_MASK) == 0) {
				uint32_t nv = (uint32_t)tid_of(self);
				if (first_waiter(BLK_LOCKPI, uaddr)) nv |= FUTEX_WAITERS;
				__atomic_store_n(uaddr, nv, __ATOMIC_SEQ_CST);
				return 0;
			}
			if ((v & FUTEX_TID_MASK) == (uint32_t)tid_of(self)) { errno = EDEADLK; return -1; }
			__atomic_store_n(uaddr, v | FUTEX_WAITERS, __ATOMIC_SEQ_CST);
			vx_block(self, BLK_LOCKPI, uaddr, NODL);
			if (self->handed) return 0;
		}
	case FUTEX_UNLOCK_PI: {
		vx_pt(K_UNLOCK_PI, uaddr);
		uint32_t v = __atomic_load_n(uaddr, __ATOMIC_SEQ_CST);
		if ((v & FUTEX_TID_MASK) != (uint32_t)tid_of(self)) { errno = EPERM; return -1; }
		vx_thr *w = first_waiter(BLK_LOCKPI, uaddr);
		if (w) {
			w->state = TS_READY; w->blk = BLK_NONE; w->handed = 1;
			uint32_t nv = (uint32_t)tid_of(w);
			if (first_waiter(BLK_LOCKPI, uaddr)) nv |= FUTEX_WAITERS;
			__atomic_store_n(uaddr, nv, __ATOMIC_SEQ_CST);
		} else {
			__atomic_store_n(uaddr, 0, __ATOMIC_SEQ_CST);
		}
		return 0; }
	default:
		vx_finish(V_ENGINE, "unmodelled futex op %d", cmd);
	}
}

long __wrap_syscall(long n, ...)
{
	va_list ap; va_start(ap, n);
	long a1 = va_arg(ap, long), a2 = va_arg(ap, long), a3 = va_arg(ap, long),
			a4 = va_arg(ap, long), a5 = va_arg(ap, long), a6 = va_arg(ap, long);
	va_end(ap);
	if (n == SYS_gettid) return vx_me ? tid_of(vx_me) : 1000;
	if (n == SYS_futex && g_active && vx_me) {
		return vx_futex((uint32_t *)a1, (int)a2, (uint32_t)a3, (const struct timespec *)a4);
	}
	return __real_syscall(n, a1, a2, a3, a4, a5, a6);
}

// ---------------------------------------------------------------------------
// POSIX semaphores: the count lives in the first int of the sem_t

static inline int *sem_cnt(sem_t *s) { return (int *)s; }

int __wrap_sem_init(sem_t *s, int pshared, unsigned value)
{
	(void)pshared;
	memset(s, 0, sizeof *s);
	*sem_cnt(s) = (int)value;
	return 0;
}
int __wrap_sem_destroy(sem_t *s)
{
	if (g_active && first_waiter(BLK_SEM, s)) vx_finish(V_ENGINE, "sem_destroy with waiters");
	return 0;
}
int __wrap_sem_post(sem_t *s)
{
	if (!g_active || !vx_me) { (*sem_cnt(s))++; return 0; }
	vx_pt(K_SEM_POST, s);
	(*sem_cnt(s))++;
	vx_thr *w = first_waiter(BLK_SEM, s);
	if (w) { w->state = TS_READY; w->blk = BLK_NONE; w->deadline = NODL; }
	return 0;
}
static int sem_wait_common(sem_t *s, uint64_t deadline)
{
	vx_thr *self = vx_me;
	self->would_block = (*sem_cnt(s) <= 0 && !(deadline != NODL && deadline <= g_vt));
	vx_pt(K_SEM_WAIT, s);
	self->would_block = 0;
	if (self->spurious) { self->spurious = 0; g_res->nspurious++; errno = EINTR; return -1; }
	for (;;) {
		if (*sem_cnt(s) > 0) { (*sem_cnt(s))--; return 0; }
		if (deadline != NODL && deadline <= g_vt) { errno = ETIMEDOUT; return -1; }
		vx_block(self, BLK_SEM, s, deadline);
		if (self->timed_out) {
			// a post may have raced with the timeout in virtual time; POSIX
			// lets sem_timedwait fail with ETIMEDOUT only if it could not lock
			if (*sem_cnt(s) > 0) { (*sem_cnt(s))--; return 0; }
			errno = ETIMEDOUT; return -1;
		}
	}
}
int __wrap_sem_wait(sem_t *s)
{
	if (!g_active || !vx_me) vx_finish(V_ENGINE, "sem_wait outside the scheduler");
	return sem_wait_common(s, NODL);
}
int __wrap_sem_timedwait(sem_t *s, const struct timespec *abs)
{
	if (!g_active || !vx_me) vx_finish(V_ENGINE, "sem_timedwait outside the scheduler");
	uint64_t a = (uint64_t)abs->tv_sec * NSEC + (uint64_t)abs->tv_nsec;
	uint64_t d = a > VX_BASE_REALTIME ? a - VX_BASE_REALTIME : 0;
	return sem_wait_common(s, d);
}
int __wrap_sem_trywait(sem_t *s)
{
	if (g_active && vx_me) vx_pt(K_SEM_WAIT, s);
	if (*sem_cnt(s) > 0) { (*sem_cnt(s))--; return 0; }
	errno = EAGAIN; return -1;
}

// ---------------------------------------------------------------------------
// clocks and sleeping

int __wrap_clock_gettime(clockid_t c, struct timespec *ts)
{
	if (!g_active) return __real_clock_gettime(c, ts);
	switch (c) {
	case CLOCK_REALTIME: case CLOCK_REALTIME_COARSE: case CLOCK_MONOTONIC:
	case CLOCK_MONOTONIC_COARSE: case CLOCK_MONOTONIC_RAW: case CLOCK_BOOTTIME: {
		uint64_t v = clock_base(c) + g_vt;
		ts->tv_sec = (time_t)(v / NSEC); ts->tv_nsec = (long)(v % NSEC);
		return 0; }
	default:
		return __real_clock_gettime(c, ts);
	}
}

static void timed_sleep(uint64_t ns)
{
	vx_thr *self = vx_me;
	vx_pt(K_SLEEP, NULL);
	vx_block(self, BLK_SLEEP, NULL, g_vt + ns);
}
int __wrap_usleep(useconds_t us)
{
	if (!g_active || !vx_me) return __real_usleep(us);
	timed_sleep((uint64_t)us * 1000); return 0;
}
unsigned __wrap_sleep(unsigned s)
{
	if (!g_active || !vx_me) return __real_sleep(s);
	timed_sleep((uint64_t)s * NSEC); return 0;
}
int __wrap_nanosleep(const struct timespec *req, struct timespec *rem)
{
	if (!g_active || !vx_me) return __real_nanosleep(req, rem);
	timed_sleep((uint64_t)req->tv_sec * NSEC + (uint64_t)req->tv_nsec);
	if (rem) { rem->tv_sec = 0; rem->tv_nsec = 0; }
	return 0;
}
int __wrap_sched_yield(void)
{
	if (!g_active || !vx_me) return __real_sched_yield();
	spin_hook(); return 0;
}

// ---------------------------------------------------------------------------
// timerfd (emulated with an eventfd + virtual expiry) and epoll

int __wrap_timerfd_create(int clockid, int flags)
{
	if (!g_active) return __real_timerfd_create(clockid, flags);
	int ef = EFD_NONBLOCK | ((flags & TFD_CLOEXEC) ? EFD_CLOEXEC : 0);
	int fd = eventfd(0, ef);
	if (fd < 0) return fd;
	if (g_ntfd >= VX_MAXTFD) vx_finish(V_ENGINE, "too many timerfds");
	g_tfd[g_ntfd].fd = fd; g_tfd[g_ntfd].clockid = clockid; g_tfd[g_ntfd].armed = 0;
	g_ntfd++;
	return fd;
}

int __wrap_timerfd_settime(int fd, int flags, const struct itimerspec *its,
		struct itimerspec *old)
{
	if (!g_active) return __real_timerfd_settime(fd, flags, its, old);
	for (int i = 0; i < g_ntfd; i++) if (g_tfd[i].fd == fd) {
		if (vx_me) vx_pt(K_TIMERFD, NULL);
		if (old) memset(old, 0, sizeof *old);
		uint64_t junk;
		while (read(fd, &junk, 8) == 8) { }
		uint64_t v = (uint64_t)its->it_value.tv_sec * NSEC + (uint64_t)its->it_value.tv_nsec;
		if (its->it_interval.tv_sec || its->it_interval.tv_nsec)
			vx_finish(V_ENGINE, "periodic timerfd not modelled");
		if (v == 0) { g_tfd[i].armed = 0; return 0; }
		uint64_t base = clock_base(g_tfd[i].clockid);
		if (flags & TFD_TIMER_ABSTIME) g_tfd[i].expiry_vt = v > base ? v - base : 0;
		else g_tfd[i].expiry_vt = g_vt + v;
		g_tfd[i].armed = 1;
		if (g_trace) fprintf(stderr, "[vx]     timerfd %d armed for vt=%llu (now %llu)\n", fd,
				(unsigned long long)g_tfd[i].expiry_vt, (unsigned long long)g_vt);
		tfd_fire_due();
		return 0;
	}
	return __real_timerfd_settime(fd, flags, its, old);
}

int __wrap_epoll_ctl(int epfd, int op, int fd, struct epoll_event *ev)
{
	if (g_active && vx_me) vx_pt(K_EPOLL_CTL, NULL);
	int rc = __real_epoll_ctl(epfd, op, fd, ev);
	if (g_active && rc == 0) {
		int slot = -1, freeslot = -1;
		for (int i = 0; i < VX_MAXEP; i++) {
			if (g_ep[i].used && g_ep[i].fd == fd) slot = i;
			if (!g_ep[i].used && freeslot < 0) freeslot = i;
		}
		if (op == EPOLL_CTL_DEL) { if (slot >= 0) g_ep[slot].used = 0; }
		else {
			if (slot < 0) slot = freeslot;
			if (slot >= 0) { g_ep[slot].used = 1; g_ep[slot].fd = fd; g_ep[slot].events = ev ? ev->events : 0; }
		}
	}
	return rc;
}

int __wrap_epoll_wait(int epfd, struct epoll_event *ev, int max, int timeout)
{
	if (!g_active || !vx_me) return __real_epoll_wait(epfd, ev, max, timeout);
	vx_thr *self = vx_me;
	vx_pt(K_EPOLL_WAIT, NULL);
	uint64_t dl = timeout > 0 ? g_vt + (uint64_t)timeout * 1000000ull : NODL;
	for (;;) {
		int r = __real_epoll_wait(epfd, ev, max, 0);
		if (r != 0 || timeout == 0) return r;
		if (dl != NODL && dl <= g_vt) return 0;
		self->epfd = epfd;
		vx_block(self, BLK_EPOLL, NULL, dl);
		if (self->timed_out) return 0;
	}
}

int __wrap_close(int fd)
{
	if (g_active) {
		for (int i = 0; i < g_ntfd; i++) if (g_tfd[i].fd == fd) g_tfd[i].armed = 0;
		for (int i = 0; i < VX_MAXEP; i++) if (g_ep[i].used && g_ep[i].fd == fd) g_ep[i].used = 0;
	}
	return __real_close(fd);
}

// ---------------------------------------------------------------------------
// I/O syscalls of the library on descriptors the harness watches (C14)

extern ssize_t __real_read(int, void *, size_t);
extern ssize_t __real_write(int, const void *, size_t);
extern ssize_t __real_pread(int, void *, size_t, off_t);
extern ssize_t __real_pwrite(int, const void *, size_t, off_t);
#define VX_MAXIOFD 8
#define VX_IOLOG 8192
static struct { int fd; unsigned char in[VX_IOLOG]; size_t nin; unsigned char out[VX_IOLOG]; size_t nout; } g_io[VX_MAXIOFD];
static int g_nio;

void vx_io_watch(int fd)
{
	if (g_nio >= VX_MAXIOFD) vx_finish(V_ENGINE, "too many watched fds");
	memset(&g_io[g_nio], 0, sizeof g_io[0]); g_io[g_nio].fd = fd; g_nio++;
}
static int io_slot(int fd)
{
	if (!g_active || !vx_me) return -1;
	for (int i = 0; i < g_nio; i++) if (g_io[i].fd == fd) return i;
	return -1;
}
static int io_slot_any(int fd) { for (int i = 0; i < g_nio; i++) if (g_io[i].fd == fd) return i; return -1; }
const unsigned char *vx_io_consumed(int fd, size_t *n) { int s = io_slot_any(fd); if (s < 0) { *n = 0; return NULL; } *n = g_io[s].nin; return g_io[s].in; }
const unsigned char *vx_io_written(int fd, size_t *n) { int s = io_slot_any(fd); if (s < 0) { *n = 0; return NULL; } *n = g_io[s].nout; return g_io[s].out; }
ssize_t vx_real_read(int fd, void *b, size_t n) { return __real_read(fd, b, n); }
ssize_t vx_real_write(int fd, const void *b, size_t n) { return __real_write(fd, b, n); }
int vx_real_close(int fd) { return __real_close(fd); }

// returns 0 = perform normally, 1 = short transfer of one byte, 2 = EINTR, 3 = EAGAIN
static int io_point(int fd)
{
	g_fault_pending = 0;
	vx_pt(K_IO, (void *)(intptr_t)fd);
	int f = g_fault_pending; g_fault_pending = 0;
	return f;
}
static void io_log(int s, int out, const void *b, ssize_t r)
{
	vx_ev(EV_IO, out, r < 0 ? -(int64_t)errno : (int64_t)r);
	if (r <= 0) return;
	unsigned char *dst = out ? g_io[s].out : g_io[s].in; size_t *n = out ? &g_io[s].nout : &g_io[s].nin;
	size_t k = (size_t)r; if (*n + k > VX_IOLOG) k = VX_IOLOG - *n;
	memcpy(dst + *n, b, k); *n += k;
}
ssize_t __wrap_read(int fd, void *b, size_t n)
{
	int s = io_slot(fd);
	if (s < 0) return __real_read(fd, b, n);
	int f = io_point(fd);
	if (f == 2) { errno = EINTR; vx_ev(EV_IO, 0, -EINTR); return -1; }
	if (f == 3) { errno = EAGAIN; vx_ev(EV_IO, 0, -EAGAIN); return -1; }
	ssize_t r = __real_read(fd, b, (f == 1 && n > 1) ? 1 : n);
	io_log(s, 0, b, r);
	if (g_trace) fprintf(stderr, "[vx]       read(%d, %zu) = %zd%s\n", fd, n, r, f ? " (injected short read)" : "");
	return r;
}
ssize_t __wrap_write(int fd, const void *b, size_t n)
{
	int s = io_slot(fd);
	if (s < 0) return __real_write(fd, b, n);
	int f = io_point(fd);
	if (f == 2) { errno = EINTR; vx_ev(EV_IO, 1, -EINTR); return -1; }
	if (f == 3) { errno = EAGAIN; vx_ev(EV_IO, 1, -EAGAIN); return -1; }
	ssize_t r = __real_write(fd, b, (f == 1 && n > 1) ? 1 : n);
	io_log(s, 1, b, r);
	if (g_trace) fprintf(stderr, "[vx]       write(%d, %zu) = %zd%s\n", fd, n, r, f ? " (injected short write)" : "");
	return r;
}
ssize_t __wrap_pread(int fd, void *b, size_t n, off_t off)
{
	int s = io_slot(fd);
	if (s < 0) return __real_pread(fd, b, n, off);
	int f = io_point(fd);
	if (f == 2 || f == 3) { errno = EINTR; return -1; }
	ssize_t r = __real_pread(fd, b, (f == 1 && n > 1) ? 1 : n, off);
	io_log(s, 0, b, r);
	return r;
}
ssize_t __wrap_pwrite(int fd, const void *b, size_t n, off_t off)
{
	int s = io_slot(fd);
	if (s < 0) return __real_pwrite(fd, b, n, off);
	int f = io_point(fd);
	if (f == 2 || f == 3) { errno = EINTR; return -1; }
	ssize_t r = __real_pwrite(fd, b, (f == 1 && n > 1) ? 1 : n, off);
	io_log(s, 1, b, r);
	return r;
}

// ---------------------------------------------------------------------------
// free() of watched objects (C17: the memory of a dispatch object is released exactly once)

extern void __real_free(void *);
#define VX_MAXWATCH 16
static struct { void *p; int id; } g_watch[VX_MAXWATCH];
static int g_nwatch;

void vx_watch_free(void *p, int id)
{
	if (g_nwatch >= VX_MAXWATCH) vx_finish(V_ENGINE, "too many watched pointers");
	g_watch[g_nwatch].p = p; g_watch[g_nwatch].id = id; g_nwatch++;
}

void __wrap_free(void *p)
{
	if (g_active && g_nwatch && p) {
		for (int i = 0; i < g_nwatch; i++) if (g_watch[i].p == p) {
			g_watch[i].p = NULL;   // the address may be reused afterwards
			vx_ev(EV_FREE, g_watch[i].id, 0);
		}
	}
	__real_free(p);
}

// ---------------------------------------------------------------------------
// /proc/<tid>/stat as seen by the pool monitor

int __wrap_open(const char *path, int flags, ...)
{
	mode_t mode = 0;
	if (flags & (O_CREAT | O_TMPFILE)) { va_list ap; va_start(ap, flags); mode = va_arg(ap, mode_t); va_end(ap); }
	int tid;
	char tail[16];
	if (g_active && sscanf(path, "/proc/%d/%15s", &tid, tail) == 2 && !strcmp(tail, "stat")) {
		int idx = tid - 1000;
		if (idx < 0 || idx >= g_nthr || g_thr[idx].state == TS_DONE || g_thr[idx].state == TS_UNUSED) {
			errno = ENOENT; return -1;
		}
		char st = (g_thr[idx].state == TS_READY) ? 'R' : 'S';
		char buf[128];
		int len = snprintf(buf, sizeof buf, "%d (vx-worker) %c 1 1 1 0 -1 0 0 0 0 0 0 0 0 0 20 0 1 0\n", tid, st);
		int fd = (int)__real_syscall(SYS_memfd_create, "vxstat", 0);
		if (fd < 0) return fd;
		if (write(fd, buf, (size_t)len) != len) { __real_close(fd); errno = EIO; return -1; }
		lseek(fd, 0, SEEK_SET);
		return fd;
	}
	return __real_open(path, flags, mode);
}

// ---------------------------------------------------------------------------
// child entry

const char *__asan_default_options(void);
const char *__asan_default_options(void)
{
	return "exitcode=66:detect_leaks=0:abort_on_error=0:handle_abort=0:"
			"allocator_may_return_null=1:detect_stack_use_after_return=0";
}

static const vx_harness *g_harness;
static int g_variant_no;

// end of an execution, callable from any controlled thread (used when thread 0 has left through
// dispatch_main()): run the oracle and report
void vx_end(void)
{
	g_focus = 0;
	g_active = 0;
	_dispatch_verif_atomic_hook = NULL;
	_dispatch_verif_spin_hook = NULL;
	char msg[1024]; msg[0] = 0;
	if (g_harness->check && g_harness->check(g_variant_no, g_log, msg, sizeof msg)) vx_finish(V_ORACLE, "%s", msg);
	if (g_res->expect_crash) vx_finish(V_ORACLE, "execution completed although a trap was expected");
	vx_finish(V_OK, NULL);
}

void vx_child_main(const vx_harness *h, int variant, vx_result *res, uint64_t stepcap)
{
	g_harness = h; g_variant_no = variant;
	g_res = res;
	g_log = &res->log;
	g_log->n = 0;
	res->npoints = 0; res->verdict = V_NONE; res->expect_crash = 0; res->msg[0] = 0;
	res->maxthreads = 0; res->nspurious = 0;
	if (getenv("VX_NO_SPURIOUS")) g_spurious = 0;
	g_trace = res->trace;
	g_stepcap = stepcap;
	g_timedev = h->time_deviations;
	if (h->horizon_ns) g_horizon = h->horizon_ns;
	pthread_key_create(&g_key, thread_exit_dtor);
	vx_thr *t0 = new_thread();
	vx_me = t0;
	t0->pth = pthread_self();
	pthread_setspecific(g_key, t0);   // so that dispatch_main()'s pthread_exit of thread 0 is seen as its end
	g_active = 1;
	_dispatch_verif_atomic_hook = atomic_hook;
	_dispatch_verif_spin_hook = spin_hook;
	h->run(variant);
	vx_end();
}
