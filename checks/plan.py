"""Task lists per property and tier.  A dsched task is one explorer run of one
(harness, variant, ncpu) with deviation bound k; a cmd task is a seqx driver."""
import json
import subprocess

V = "/verif"
_variants = None


def variants(harness):
    global _variants
    if _variants is None:
        out = subprocess.run([V + "/build/vxh", "list"], stdout=subprocess.PIPE, text=True).stdout
        _variants = {}
        for e in json.loads(out):
            _variants.setdefault(e["harness"], []).append(e["variant"])
    return _variants.get(harness, [])


def ds(harness, k, vs=None, ncpu=2, mode="pb", jobs=4, **kw):
    vs = variants(harness) if vs is None else vs
    out = []
    for v in vs:
        t = {"engine": "dsched", "harness": harness, "variant": v, "k": k, "ncpu": ncpu, "mode": mode, "jobs": jobs}
        t.update(kw)
        out.append(t)
    return out


SC_ASSUME = [
    "sequentially consistent exploration: scheduling points are the hooked C11 atomics, busy-wait iterations and wrapped blocking calls; plain racy accesses travel with the preceding step",
    "Linux/epoll/futex/POSIX-semaphore back end as built by bin/buildlib (clang-14, ASan, -DDISPATCH_VERIF)",
    "futex and semaphore wake-ups pick waiters in FIFO order",
]

PLAN = {
    "C09": {
        "rule": "one evaluation = one complete execution of the real dispatch_once code under one schedule; schedules are "
                "enumerated exhaustively up to k preemptions; distinct = distinct API-level event logs",
        "bounds": {"quick": "2-4 racing callers + late caller, both entry points, k<=2 (k<=3 for 2-3 callers)",
                   "thorough": "2-4 racing callers + late caller, both entry points, k<=3 (k<=4 for 2 callers)"},
        "assumptions": SC_ASSUME,
        "parallel": {"quick": 4, "thorough": 2},
        "budget_s": {"quick": 170, "thorough": 1500},
    },
}


def tasks_for(pid, tier):
    q = tier == "quick"
    if pid == "C09":
        return (ds("once", 3 if q else 4, [0, 1]) + ds("once", 3, [2, 3]) +
                ds("once", 2 if q else 3, [4, 5], jobs=4 if q else 8))
    raise KeyError(pid)
