// C18 (scheduled half) — queue-specific data and dispatch_assert_queue follow the target chain
//
// variant = hierarchy shape x key placement x submission path x assertion mode
//   shapes:  0: S0   1: S1>S0   2: C2>S1>S0   3: C1>S0   4: S2>C1>S0   5: S1>W0   6: C2>S1>W0   7: S1>M   8: C2>S1>M
//            (S serial, C concurrent, W workloop, M the main queue: thread 0 sits in dispatch_main(), a client thread submits)
//   placement: bit i set = key K has a value on level i (value 'a'+i); nearest level from the top wins
//   paths: async, sync, barrier_async, barrier_sync, async_and_wait, apply(2), block async, async to the suspended queue + 2 fillers + resume
//   assertion mode: 0 = every assert that must hold is executed (dispatch_assert_queue on each queue of
//   the chain, dispatch_assert_queue_not on an unrelated queue X and on queues outside the chain);
//   1..depth = dispatch_assert_queue_not(level) must trap; depth+1 = dispatch_assert_queue(X) must trap.
#include "hcommon.h"
#include <dispatch/private.h>

static const int DEPTH[] = { 1, 2, 3, 2, 3, 2, 3, 2, 3, 1 };
#define NSHAPE 10
static const char *const SHAPE[] = { "S0", "S1>S0", "C2>S1>S0", "C1>S0", "S2>C1>S0", "S1>W0 (workloop at the bottom)", "C2>S1>W0 (workloop at the bottom)", "S1>M (main queue at the bottom)", "C2>S1>M (main queue at the bottom)", "C0 (a concurrent queue on the default target: its items run on pool workers while another thread may hold its drain lock)" };
static const char *const PATH[] = { "dispatch_async_f", "dispatch_sync_f", "dispatch_barrier_async_f", "dispatch_barrier_sync_f", "dispatch_async_and_wait_f", "dispatch_apply_f(2)", "dispatch_async of a block",
	"dispatch_async_f to the suspended top queue, two more items queued behind it, then dispatch_resume (the drainer is still handing items out while the first one runs)" };
#define NPATH 8
typedef struct { int shape, mask, path, mode; } var;
#define MAXV 2048
static var V[MAXV];
static int NV;
static void build(void)
{
	if (NV) return;
	for (int s = 0; s < NSHAPE; s++) for (int m = 0; m < (1 << DEPTH[s]); m++) for (int p = 0; p < NPATH; p++)
		for (int a = 0; a <= DEPTH[s] + 1; a++) {
			if (a > 0 && m != (1 << DEPTH[s]) - 1 && m != 0) continue;   // trap modes only for two placements (the asserts do not depend on it)
			V[NV++] = (var){ s, m, p, a };
		}
}

static const char KEY = 0;
static dispatch_queue_t Q[3], X;
static const var *g_v;
static int g_done;
enum { EV_SPEC = EV_USER, EV_QSPEC, EV_ASSERTED };

static void body(int iter)
{
	const var *v = g_v;
	int depth = DEPTH[v->shape];
	vx_ev(EV_START, 1 + iter, 0);
	void *got = dispatch_get_specific(&KEY);
	vx_ev(EV_SPEC, iter, got ? *(char *)got : 0);
	for (int i = 0; i < depth; i++) {
		void *qs = dispatch_queue_get_specific(Q[i], &KEY);
		vx_ev(EV_QSPEC, i, qs ? *(char *)qs : 0);
	}
	if (v->mode == 0) {
		for (int i = 0; i < depth; i++) dispatch_assert_queue(Q[i]);
		dispatch_assert_queue_not(X);
		vx_ev(EV_ASSERTED, iter, 0);
	} else if (v->mode <= depth) {
		vx_expect_crash();
		dispatch_assert_queue_not(Q[v->mode - 1]);
	} else {
		vx_expect_crash();
		dispatch_assert_queue(X);
	}
	vx_point();
	vx_ev(EV_END, 1 + iter, 0);
	g_done++;
}
static void item_fn(void *ctx) { (void)ctx; body(0); }
static void apply_fn(void *ctx, size_t i) { (void)ctx; body((int)i); }
static void warm_fn(void *c) { *(int *)c = 1; }
static char VAL[3] = { 'a', 'b', 'c' };
static int g_fill[2];
static void submit(dispatch_queue_t top);
static void submit_and_end(void *top);

static int nvariants(void) { build(); return NV; }
static void describe(int vi, char *b, size_t n)
{
	build();
	const var *v = &V[vi];
	char mode[64];
	if (v->mode == 0) snprintf(mode, sizeof mode, "all asserts that must hold");
	else if (v->mode <= DEPTH[v->shape]) snprintf(mode, sizeof mode, "dispatch_assert_queue_not(level %d) must trap", v->mode - 1);
	else snprintf(mode, sizeof mode, "dispatch_assert_queue(unrelated queue) must trap");
	snprintf(b, n, "hierarchy %s, key on levels mask 0x%x, item submitted to the top queue with %s; %s", SHAPE[v->shape], v->mask, PATH[v->path], mode);
}

static void run(int vi)
{
	build();
	g_v = &V[vi]; g_done = 0;
	const var *v = g_v;
	int depth = DEPTH[v->shape];
	vx_set_horizon(12ull * 1000000000ull);
	X = dispatch_queue_create("vx.spec.x", NULL);
	Q[0] = v->shape == 9 ? dispatch_queue_create("vx.spec.0", DISPATCH_QUEUE_CONCURRENT) : v->shape >= 7 ? dispatch_get_main_queue() : v->shape >= 5 ? (dispatch_queue_t)dispatch_workloop_create("vx.spec.0") : dispatch_queue_create("vx.spec.0", NULL);
	if (depth >= 2) Q[1] = dispatch_queue_create_with_target("vx.spec.1", (v->shape == 3 || v->shape == 4) ? DISPATCH_QUEUE_CONCURRENT : DISPATCH_QUEUE_SERIAL, Q[0]);
	if (depth >= 3) Q[2] = dispatch_queue_create_with_target("vx.spec.2", (v->shape == 4) ? DISPATCH_QUEUE_SERIAL : DISPATCH_QUEUE_CONCURRENT, Q[1]);
	for (int i = 0; i < depth; i++) if (v->mask & (1 << i)) dispatch_queue_set_specific(Q[i], &KEY, &VAL[i], NULL);
	dispatch_queue_set_specific(X, &KEY, &VAL[0], NULL);   // must never be seen from the hierarchy
	dispatch_queue_t top = Q[depth - 1];
	if (v->shape == 7 || v->shape == 8) {
		// the main queue only drains once thread 0 has entered dispatch_main(): a client thread submits and ends the execution
		vx_focus_begin();
		vx_thread(submit_and_end, top);
		dispatch_main();
	}
	int d = 0; dispatch_async_f(top, &d, warm_fn); int *a[2] = { &d, (int *)(intptr_t)1 }; vx_wait_until(pred_int_ge, a);
	vx_focus_begin();
	submit(top);
	vx_focus_end();
}

static void submit(dispatch_queue_t top)
{
	const var *v = g_v;
	int want = 1;
	switch (v->path) {
	case 0: dispatch_async_f(top, NULL, item_fn); break;
	case 1: dispatch_sync_f(top, NULL, item_fn); break;
	case 2: dispatch_barrier_async_f(top, NULL, item_fn); break;
	case 3: dispatch_barrier_sync_f(top, NULL, item_fn); break;
	case 4: dispatch_async_and_wait_f(top, NULL, item_fn); break;
	case 5: dispatch_apply_f(2, top, NULL, apply_fn); want = 2; break;
	case 6: dispatch_async(top, ^{ body(0); }); break;
	case 7:
		dispatch_suspend(top);
		dispatch_async_f(top, NULL, item_fn);
		dispatch_async_f(top, &g_fill[0], warm_fn); dispatch_async_f(top, &g_fill[1], warm_fn);
		dispatch_resume(top);
		break;
	}
	int *b[2] = { &g_done, (int *)(intptr_t)want };
	vx_wait_until(pred_int_ge, b);
}
static void submit_and_end(void *top) { submit(top); vx_end(); }

static int check(int vi, const vx_log *l, char *msg, size_t len)
{
	const var *v = &V[vi];
	int depth = DEPTH[v->shape];
	int expect = 0;
	for (int i = depth - 1; i >= 0; i--) if (v->mask & (1 << i)) { expect = 'a' + i; break; }
	int iters = v->path == 5 ? 2 : 1;
	for (int it = 0; it < iters; it++) {
		int e = ev_first(l, EV_SPEC, it);
		if (e < 0) FAILF(msg, len, "item did not run");
		if (l->ev[e].arg != expect)
			FAILF(msg, len, "dispatch_get_specific returned '%c' inside the item; the nearest level with the key along the target chain holds '%c'",
					l->ev[e].arg ? (char)l->ev[e].arg : '0', expect ? (char)expect : '0');
		if (v->mode == 0 && ev_first(l, EV_ASSERTED, it) < 0) FAILF(msg, len, "asserts did not complete");
	}
	for (uint32_t i = 0; i < l->n; i++) if (l->ev[i].kind == EV_QSPEC) {
		int lvl = l->ev[i].id, want = (v->mask & (1 << lvl)) ? 'a' + lvl : 0;
		if (l->ev[i].arg != want) FAILF(msg, len, "dispatch_queue_get_specific(level %d) returned '%c', expected '%c'", lvl, l->ev[i].arg ? (char)l->ev[i].arg : '0', want ? (char)want : '0');
	}
	return 0;
}

const vx_harness h_spec = { "spec", "C18", nvariants, describe, run, check, 0, 0 };
